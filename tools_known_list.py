#!/usr/bin/env python3
"""tools_known_list.py D6|D7 : (maintainer tool, never run by a check) re-derive the list of individually known
failing inputs of a known finding whose predicate also matches inputs that hold, by running the quick tier of
its check in listing mode against /repo, and write it into known_findings.json (args). Review the diff before
committing.
  D7 (C04): torn flushes inside the predicate that write every tree completely or not at all and still fail
  D6 (C03): crash points between the insert record of a root-splitting row and its root-move record that fail"""
import json, os, subprocess, sys, tempfile
V = os.path.dirname(os.path.abspath(__file__))
which = sys.argv[1]
cfg = {"D7": ("C04", "VERIF_C04_LISTKEYS", "d7-failing-key:", "D7-torn-flush-with-new-pages", "tree_atomic_failing_inputs"),
       "D6": ("C03", "VERIF_C03_LISTKEYS", "d6-failing-key:", "D6-root-move-not-atomic", "failing_inputs")}[which]
check, envvar, prefix, fid, argkey = cfg
ev = tempfile.mkdtemp(prefix="knownlist-")
env = dict(os.environ, VERIF_EVIDENCE_DIR=ev, VERIF_WORK_SUFFIX="-list", VERIF_REPLAY_DIR=ev)
env[envvar] = "1"
r = subprocess.run([os.path.join(V, "vcheck"), "run", check], env=env, capture_output=True, text=True)
print(r.stdout[-400:])
e = json.load(open(os.path.join(ev, check + ".json")))
if not e["coverage"].get("exhaustive"):
    sys.exit("the listing run did not complete its bounds; list not written")
keys = sorted(k.split(":", 1)[1] for k in e["coverage"]["coverage_tags"] if k.startswith(prefix))
p = os.path.join(V, "known_findings.json")
k = json.load(open(p))
for f in k["findings"]:
    if f["id"] == fid:
        f["args"] = {argkey: keys,
                     "note": "hashes of the inputs (history, statement or flush, crash point) inside the predicate that fail on the tree of the commit named in 'listed_at'; inputs inside the predicate but outside this list must hold (quick tier's bounds)",
                     "listed_at": subprocess.run(["git", "-C", os.environ.get("VERIF_REPO", "/repo"), "rev-parse", "--short", "HEAD"], capture_output=True, text=True).stdout.strip()}
json.dump(k, open(p, "w"), indent=1)
print("listed", len(keys), "failing inputs for", fid)
