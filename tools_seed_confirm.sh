#!/bin/bash
# tools_seed_confirm.sh <seed-id> <srcdir with patch.diff, meta.json, demo *_test.go>
# Confirms a seeded change in a fresh scratch worktree of /repo HEAD:
#  (1) demo passes without the patch, (2) patch applies, builds, existing suite passes,
#  (3) demo fails with the patch. Copies the deliverables to /verif/seeded/<seed-id>/.
set -u
export GOFLAGS=-mod=mod GOPROXY=off GOSUMDB=off GOTOOLCHAIN=local
id=$1; src=$2
wt=/tmp/sv-$id
git -C /repo worktree remove --force $wt 2>/dev/null; rm -rf $wt
git -C /repo worktree add -q --detach $wt HEAD || exit 2
pkg=$(python3 -c "import json;print(json.load(open('$src/meta.json'))['demo_package_dir'])")
demo=$(ls $src/*_test.go | head -1)
cp $demo $wt/$pkg/zz_seed_demo_test.go
cd $wt
echo "--- demo without patch (must pass)"
go test -vet=off -count=1 ./$pkg/ -run 'Seed|C[0-9][0-9]|Demo' 2>&1 | tail -3; r1=${PIPESTATUS[0]}
rm $wt/$pkg/zz_seed_demo_test.go
echo "--- apply patch, run the existing suite (must pass)"
git apply $src/patch.diff; ra=$?
go build ./... ; rb=$?
go test -vet=off -count=1 ./... 2>&1 | tail -6; r2=${PIPESTATUS[0]}
cp $demo $wt/$pkg/zz_seed_demo_test.go
echo "--- demo with patch (must fail)"
go test -vet=off -count=1 ./$pkg/ -run 'Seed|C[0-9][0-9]|Demo' 2>&1 | tail -8; r3=${PIPESTATUS[0]}
if [ $r3 = 0 ]; then
  echo "--- demo with patch, built with -tags verif (demonstrations may use the hooks)"
  go test -tags verif -vet=off -count=1 ./$pkg/ -run 'Seed|C[0-9][0-9]|Demo' 2>&1 | tail -8; r3=${PIPESTATUS[0]}
fi
cd /; git -C /repo worktree remove --force $wt; rm -rf $wt
echo "RESULT id=$id demo_without=$r1 apply=$ra build=$rb suite_with=$r2 demo_with=$r3"
if [ $r1 = 0 ] && [ $ra = 0 ] && [ $rb = 0 ] && [ $r2 = 0 ] && [ $r3 != 0 ]; then
  mkdir -p /verif/seeded/$id; cp $src/patch.diff $src/meta.json $demo /verif/seeded/$id/; [ -f $src/NOTE.txt ] && cp $src/NOTE.txt /verif/seeded/$id/
  echo "CONFIRMED $id"
else echo "NOT CONFIRMED $id"; fi
