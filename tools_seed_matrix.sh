#!/bin/bash
# tools_seed_matrix.sh [check...] : run every seeded change (of the given properties; default all) against the
# quick tier of its property's check; one line each.
cd "$(dirname "$0")"
for d in seeded/*/; do
  id=$(basename $d); chk=${id%%-*}
  if [ $# -gt 0 ]; then case " $* " in *" $chk "*|*" $id "*) ;; *) continue;; esac; fi
  out=$(./tools_seed_run.sh $id $chk 2>&1 | tr -d '\000' | grep -a '^SEED' | head -1)
  rc=$(echo "$out" | sed -n 's/.* rc=\([0-9]*\) .*/\1/p')
  echo "$id $chk rc=$rc"
done
