module verif/lib

go 1.23
