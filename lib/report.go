package lib

import (
	"encoding/json"
	"fmt"
	"hash/fnv"
	"os"
	"strconv"
	"strings"
	"sync/atomic"
	"syscall"
	"time"
)

// Env is the worker's view of the driver's request.
type Env struct {
	Check   string
	Tier    string // quick | thorough
	Shard   int
	NShards int
	Out     string // result file
	Replay  string // replay file (empty = explore)
	Journal string
	Seed    int64
	Budget  time.Duration // soft deadline for the exploration
	Start   time.Time
	Known   []KnownEntry
}

// KnownEntry mirrors one entry of /verif/known_findings.json.
type KnownEntry struct {
	Property  string          `json:"property"`
	ID        string          `json:"id"`
	Status    string          `json:"status"` // open | fixed
	Predicate string          `json:"predicate"`
	Args      json.RawMessage `json:"args,omitempty"`
	What      string          `json:"what"`
	Commit    string          `json:"commit,omitempty"`
	Witness   string          `json:"witness,omitempty"`
}

// GetEnv reads the VERIF_* variables.
func GetEnv() *Env {
	e := &Env{
		Check:   os.Getenv("VERIF_CHECK"),
		Tier:    os.Getenv("VERIF_TIER"),
		Out:     os.Getenv("VERIF_OUT"),
		Replay:  os.Getenv("VERIF_REPLAY"),
		Journal: os.Getenv("VERIF_JOURNAL"),
		NShards: 1,
		Start:   time.Now(),
	}
	if e.Tier == "" {
		e.Tier = "quick"
	}
	if v, err := strconv.Atoi(os.Getenv("VERIF_SHARD")); err == nil {
		e.Shard = v
	}
	if v, err := strconv.Atoi(os.Getenv("VERIF_NSHARDS")); err == nil && v > 0 {
		e.NShards = v
	}
	if v, err := strconv.ParseInt(os.Getenv("VERIF_SEED"), 10, 64); err == nil {
		e.Seed = v
	}
	if v, err := strconv.Atoi(os.Getenv("VERIF_BUDGET_S")); err == nil && v > 0 {
		e.Budget = time.Duration(v) * time.Second
	}
	if p := os.Getenv("VERIF_KNOWN"); p != "" {
		if b, err := os.ReadFile(p); err == nil {
			var all struct {
				Findings []KnownEntry `json:"findings"`
			}
			if err := json.Unmarshal(b, &all); err != nil {
				panic(HarnessError{"known_findings.json: " + err.Error()})
			}
			for _, k := range all.Findings {
				if k.Property == e.Check {
					e.Known = append(e.Known, k)
				}
			}
		}
	}
	return e
}

// Thorough reports whether the thorough tier was requested.
func (e *Env) Thorough() bool { return e.Tier == "thorough" }

// Expired reports whether the soft budget is used up.
func (e *Env) Expired() bool { return e.Budget > 0 && time.Since(e.Start) > e.Budget }

// OpenKnown returns the open known-finding ids (predicate names) for this check.
func (e *Env) OpenKnown() map[string]KnownEntry {
	m := map[string]KnownEntry{}
	for _, k := range e.Known {
		if k.Status == "open" {
			m[k.ID] = k
		}
	}
	return m
}

// KnownCount are the per-entry counters of 3.9.
type KnownCount struct {
	MatchedViolating    int64 `json:"matched_and_violating"`
	MatchedNotViolating int64 `json:"matched_not_violating"`
}

// Report is what one worker hands back to the driver.
type Report struct {
	Check       string                 `json:"check"`
	Tier        string                 `json:"tier"`
	Shard       int                    `json:"shard"`
	Evaluations int64                  `json:"evaluations"`
	Executions  int64                  `json:"executions"`
	ChoicePts   int64                  `json:"choice_points"`
	NonTrivial  int64                  `json:"nontrivial"`
	Hashes      []uint64               `json:"hashes"`
	HashesCut   bool                   `json:"hashes_cut"`
	Outcomes    int64                  `json:"distinct_outcomes"`
	Samples     []any                  `json:"samples"`
	Failures    []*Failure             `json:"failures"`
	FailCount   int64                  `json:"fail_count"`
	Known       map[string]*KnownCount `json:"known"`
	Exhaustive  bool                   `json:"exhaustive"`
	States      int64                  `json:"states"`
	Transitions int64                  `json:"transitions"`
	Tags        map[string]int64       `json:"tags"`
	Bounds      map[string]any         `json:"bounds"`
	Notes       []string               `json:"notes"`
	HarnessErr  string                 `json:"harness_error,omitempty"`
	WallS       float64                `json:"wall_s"`

	hashSet  map[uint64]struct{}
	outSet   map[uint64]struct{}
	maxFail  int
	maxSamp  int
	sampleEv int64
}

// NewReport makes an empty report for the environment.
func NewReport(e *Env) *Report {
	return &Report{Check: e.Check, Tier: e.Tier, Shard: e.Shard, Exhaustive: true,
		Known: map[string]*KnownCount{}, Tags: map[string]int64{}, Bounds: map[string]any{},
		hashSet: map[uint64]struct{}{}, outSet: map[uint64]struct{}{}, maxFail: 20, maxSamp: 6}
}

// HashString hashes a class key.
func HashString(s string) uint64 {
	h := fnv.New64a()
	h.Write([]byte(s))
	return h.Sum64()
}

// AddCase counts one evaluated case directly (for harnesses that enumerate with
// plain loops rather than through Explore).
func (r *Report) AddCase(nontrivial bool, class uint64, outcome uint64) {
	r.Evaluations++
	r.outSet[outcome] = struct{}{}
	if nontrivial {
		r.NonTrivial++
		if len(r.hashSet) < 2_000_000 {
			r.hashSet[class] = struct{}{}
		} else {
			r.HashesCut = true
		}
	}
}

// AddSample keeps up to a handful of written-out cases, spread over the run.
func (r *Report) AddSample(s any) {
	r.sampleEv++
	if len(r.Samples) < r.maxSamp {
		r.Samples = append(r.Samples, s)
		return
	}
	// replace a late slot occasionally so samples are not only the first cases
	if r.sampleEv&(r.sampleEv-1) == 0 { // powers of two
		r.Samples[r.maxSamp-1-int(r.sampleEv%3)] = s
	}
}

// WantSample says whether AddSample would keep a case now (lets harnesses
// avoid rendering every case).
func (r *Report) WantSample() bool {
	n := r.sampleEv + 1
	return len(r.Samples) < r.maxSamp || n&(n-1) == 0
}

// AddFailure records a failure (kept up to a cap; all are counted).
func (r *Report) AddFailure(f *Failure) {
	if f.Known != "" {
		k := r.Known[f.Known]
		if k == nil {
			k = &KnownCount{}
			r.Known[f.Known] = k
		}
		k.MatchedViolating++
		// keep one witness per known entry
		for _, g := range r.Failures {
			if g.Known == f.Known {
				return
			}
		}
		r.Failures = append(r.Failures, f)
		return
	}
	r.FailCount++
	n := 0
	for _, g := range r.Failures {
		if g.Known == "" {
			n++
		}
	}
	if n < r.maxFail {
		r.Failures = append(r.Failures, f)
	}
}

// KnownNotViolating counts an execution that matches a known-finding predicate
// but passed the oracle.
func (r *Report) KnownNotViolating(id string) {
	k := r.Known[id]
	if k == nil {
		k = &KnownCount{}
		r.Known[id] = k
	}
	k.MatchedNotViolating++
}

// OnExec is the standard Explore callback feeding a report.
func (r *Report) OnExec(x *Exec, counted bool) {
	r.Executions++
	if !counted {
		return
	}
	cls := x.Obs
	if x.Class != "" {
		cls = HashString(x.Class)
	}
	r.AddCase(x.NonTriv, cls, x.Obs)
	for t := range x.Tags {
		if strings.HasPrefix(t, "known-not-violating:") {
			r.KnownNotViolating(strings.TrimPrefix(t, "known-not-violating:"))
			continue
		}
		r.Tags[t]++
	}
	if x.Fail != nil {
		r.AddFailure(x.Fail)
	}
	if x.NonTriv && r.WantSample() {
		r.AddSample(map[string]any{"choices": ChoicesString(x.Choices), "trace": x.Trace})
	} else if x.NonTriv {
		r.sampleEv++
	}
}

// Write stores the report where the driver expects it.
func (r *Report) Write(e *Env) {
	r.WallS = time.Since(e.Start).Seconds()
	r.Hashes = r.Hashes[:0]
	for h := range r.hashSet {
		r.Hashes = append(r.Hashes, h)
	}
	r.Outcomes = int64(len(r.outSet))
	b, err := json.Marshal(r)
	if err != nil {
		panic(err)
	}
	if e.Out == "" {
		fmt.Fprintln(os.Stderr, string(b))
		return
	}
	if err := os.WriteFile(e.Out, b, 0644); err != nil {
		panic(err)
	}
}

// ---- environment ownership helpers ----

var savedStdout, savedStderr int = -1, -1

// Silence redirects fd 1 and 2 to /dev/null (mkdb prints on every call) and
// keeps the originals for Report().
func Silence() {
	if savedStdout >= 0 {
		return
	}
	savedStdout, _ = syscall.Dup(1)
	savedStderr, _ = syscall.Dup(2)
	null, err := os.OpenFile("/dev/null", os.O_WRONLY, 0)
	if err != nil {
		return
	}
	syscall.Dup2(int(null.Fd()), 1)
}

// SilenceStderr additionally sends fd 2 to /dev/null (the vendored scanner
// prints a line per lexical error). Say keeps working through the saved fd.
func SilenceStderr() {
	if savedStderr < 0 {
		savedStderr, _ = syscall.Dup(2)
	}
	null, err := os.OpenFile("/dev/null", os.O_WRONLY, 0)
	if err != nil {
		return
	}
	syscall.Dup2(int(null.Fd()), 2)
}

// RestoreStderr undoes SilenceStderr.
func RestoreStderr() {
	if savedStderr >= 0 {
		syscall.Dup2(savedStderr, 2)
	}
}

// Say writes to the original stderr even after Silence.
func Say(format string, a ...any) {
	fd := savedStderr
	if fd < 0 {
		fd = 2
	}
	syscall.Write(fd, []byte(fmt.Sprintf(format, a...)+"\n"))
}

// ScratchRoot returns (creating it) this process's scratch directory on tmpfs.
func ScratchRoot() string {
	base := "/dev/shm"
	if st, err := os.Stat(base); err != nil || !st.IsDir() {
		base = os.TempDir()
	}
	d := fmt.Sprintf("%s/verif-%d", base, os.Getpid())
	if !scratchFresh {
		// a killed earlier process may have had the same pid
		os.RemoveAll(d)
		scratchFresh = true
	}
	os.MkdirAll(d, 0755)
	return d
}

var scratchFresh bool

// CleanScratch removes this process's scratch directory.
func CleanScratch() { os.RemoveAll(ScratchRoot()) }

// ReplayFile is the on-disk form of a violation.
type ReplayFile struct {
	Property string   `json:"property"`
	Check    string   `json:"check"`
	Tier     string   `json:"tier"`
	Params   string   `json:"params,omitempty"`
	Kind     string   `json:"kind"`
	Detail   string   `json:"detail"`
	Choices  string   `json:"choices"`
	Trace    []string `json:"trace"`
}

// LoadReplay reads a replay file.
func LoadReplay(path string) *ReplayFile {
	b, err := os.ReadFile(path)
	if err != nil {
		panic(HarnessError{"replay file: " + err.Error()})
	}
	var rf ReplayFile
	if err := json.Unmarshal(b, &rf); err != nil {
		panic(HarnessError{"replay file: " + err.Error()})
	}
	return &rf
}

// Main wraps a worker's main function: harness errors become exit 2 with a
// message, everything else is reported through the report file.
func Main(e *Env, r *Report, f func()) {
	defer func() {
		if x := recover(); x != nil {
			msg := fmt.Sprint(x)
			if he, ok := x.(HarnessError); ok {
				msg = he.Msg
			}
			r.HarnessErr = msg
			r.Exhaustive = false
			r.Write(e)
			Say("HARNESS-ERROR check=%s shard=%d: %s", e.Check, e.Shard, strings.TrimSpace(msg))
			CleanScratch()
			os.Exit(2)
		}
	}()
	f()
	r.Write(e)
	CleanScratch()
}

// Progress is a heartbeat a harness updates before every case; a Watchdog
// turns a case that does not finish into a reported hang of exactly that case.
type Progress struct {
	n   atomic.Int64
	cur atomic.Pointer[[2]string]
	mm  []byte // journal file mapped into memory: survives the death of the process
}

// MapJournal maps the journal file, so that Set can leave the case in
// progress behind at memory speed; if the worker dies from a fatal runtime
// error (stack overflow, out of memory) the driver reads the case from it.
func (p *Progress) MapJournal(path string) {
	if path == "" {
		return
	}
	f, err := os.OpenFile(path, os.O_RDWR|os.O_CREATE|os.O_TRUNC, 0644)
	if err != nil {
		return
	}
	defer f.Close()
	const size = 8192
	if f.Truncate(size) != nil {
		return
	}
	if m, err := syscall.Mmap(int(f.Fd()), 0, size, syscall.PROT_READ|syscall.PROT_WRITE, syscall.MAP_SHARED); err == nil {
		p.mm = m
	}
}

// Set records the case about to run.
func (p *Progress) Set(family, input string) {
	p.cur.Store(&[2]string{family, input})
	p.n.Add(1)
	if p.mm != nil {
		n := copy(p.mm[4:], family)
		p.mm[4+n] = '\n'
		m := copy(p.mm[5+n:len(p.mm)-1], input)
		end := 5 + n + m
		p.mm[0], p.mm[1], p.mm[2], p.mm[3] = byte(end), byte(end>>8), 'J', 'M' // length first, marker last
	}
}

// Done clears the mapped journal (a clean end of the enumeration).
func (p *Progress) Done() {
	if p.mm != nil {
		p.mm[2], p.mm[3] = 0, 0
	}
}

// StartWatchdog reports a hang when the heartbeat does not move for limit
// (the cases watched take microseconds; limit is tens of seconds). The hang is
// recorded as a failure of the current case, the report is written and the
// worker exits: the stuck goroutine cannot be stopped.
func StartWatchdog(e *Env, r *Report, p *Progress, limit time.Duration, kind string) {
	go func() {
		last, since := int64(-1), time.Now()
		for {
			time.Sleep(time.Second)
			n := p.n.Load()
			if n != last {
				last, since = n, time.Now()
				continue
			}
			if n == 0 || time.Since(since) < limit {
				continue
			}
			c := p.cur.Load()
			if c == nil {
				continue
			}
			r.AddFailure(&Failure{Kind: kind, Detail: fmt.Sprintf("[%s] input %q did not finish within %s (the same step normally takes microseconds)", c[0], c[1], limit), Trace: []string{c[0], c[1]}, Params: c[0]})
			r.Exhaustive = false
			r.Notes = append(r.Notes, "a hang ended this worker early; the rest of its share was not explored")
			r.Write(e)
			Say("HANG check=%s shard=%d: %q", e.Check, e.Shard, c[1])
			CleanScratch()
			os.Exit(0)
		}
	}()
}
