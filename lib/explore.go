// Package lib is the bounded exhaustive explorer shared by every mkdb check.
//
// A harness body is a deterministic function of a choice oracle (*Ctx). The
// explorer runs the body with a recorded prefix of choices, answers 0 ("the
// default") at every later choice point, and then branches on every later
// point whose accumulated deviation cost stays within the bound: a stateless
// depth-first search over choice sequences (iterative context bounding when the
// choices are thread switches, plain depth-bounded enumeration when every
// option costs 0).
package lib

import (
	"fmt"
	"hash/fnv"
	"os"
	"runtime/debug"
	"sort"
	"strings"
)

// Point is one choice point met by an execution.
type Point struct {
	N     int    // number of options
	Label string // what is being chosen (checked on replay)
	Cost  []int  // deviation cost per option (nil = all 0)
}

// Failure is an oracle disagreement (or a crash) in one execution.
type Failure struct {
	Kind    string   `json:"kind"`
	Detail  string   `json:"detail"`
	Choices []int    `json:"choices"`
	Trace   []string `json:"trace"`
	Known   string   `json:"known,omitempty"` // id of the known-findings entry that claims it
	Params  string   `json:"params,omitempty"`
}

// HarnessError is raised (as a panic) for problems of the machinery itself:
// replay divergence, vacuity, nondeterminism. It never becomes a VIOLATION.
type HarnessError struct{ Msg string }

func (h HarnessError) Error() string { return "harness error: " + h.Msg }

// Ctx is the choice oracle handed to a harness body for one execution.
type Ctx struct {
	prefix  []int
	choices []int
	points  []Point
	obs     uint64
	trace   []string
	fail    *Failure
	nontriv bool
	class   string // optional class key for distinct counting (default: obs hash)
	tags    map[string]bool
	strict  bool // replay mode: the whole choice list is given
	X       any  // per-run scratch for the harness
}

// Choose returns the next choice in [0,n). Option 0 is the default answer.
func (c *Ctx) Choose(n int, label string) int { return c.ChooseCost(n, label, nil) }

// ChooseCost is Choose with a deviation cost per option.
func (c *Ctx) ChooseCost(n int, label string, cost []int) int {
	if n <= 0 {
		panic(HarnessError{fmt.Sprintf("Choose(%d,%q): no options", n, label)})
	}
	i := len(c.choices)
	v := 0
	if i < len(c.prefix) {
		v = c.prefix[i]
		if v < 0 || v >= n {
			panic(HarnessError{fmt.Sprintf("replay divergence at point %d (%s): recorded choice %d but only %d options", i, label, v, n)})
		}
	} else if c.strict {
		// strict replay may run out of recorded choices only with defaults
		v = 0
	}
	c.choices = append(c.choices, v)
	c.points = append(c.points, Point{N: n, Label: label, Cost: cost})
	return v
}

// Fresh reports whether every recorded prefix choice has been consumed, i.e.
// everything from here on has not been seen by an ancestor execution.
func (c *Ctx) Fresh() bool { return c.strict || len(c.choices) >= len(c.prefix) }

// Logf appends to the human-readable event trace of this execution.
func (c *Ctx) Logf(format string, a ...any) { c.trace = append(c.trace, fmt.Sprintf(format, a...)) }

// Trace returns the event trace so far.
func (c *Ctx) Trace() []string { return c.trace }

// Observe folds an observation into the execution's outcome hash.
func (c *Ctx) Observe(a ...any) {
	h := fnv.New64a()
	fmt.Fprintf(h, "%016x|", c.obs)
	fmt.Fprint(h, a...)
	c.obs = h.Sum64()
}

// NonTrivial marks the execution as non-trivial by the check's stated rule.
func (c *Ctx) NonTrivial() { c.nontriv = true }

// Class sets the key used for counting distinct non-trivial cases (default:
// the observation hash).
func (c *Ctx) Class(k string) { c.class = k }

// Tag records a coverage tag (used by vacuity guards).
func (c *Ctx) Tag(t string) {
	if c.tags == nil {
		c.tags = map[string]bool{}
	}
	c.tags[t] = true
}

// Fail records an oracle disagreement; only the first one per execution is kept.
func (c *Ctx) Fail(kind, format string, a ...any) {
	if c.fail != nil {
		return
	}
	c.fail = &Failure{Kind: kind, Detail: fmt.Sprintf(format, a...)}
}

// ClearFail drops the recorded failure (used when a failure belongs to a
// different property than the one the running check decides).
func (c *Ctx) ClearFail() { c.fail = nil }

// FailKind returns the kind of the recorded failure ("" if none).
func (c *Ctx) FailKind() string {
	if c.fail == nil {
		return ""
	}
	return c.fail.Kind
}

// Failed reports whether the execution already failed.
func (c *Ctx) Failed() bool { return c.fail != nil }

// SetKnown attributes the recorded failure (if any) to a known-findings entry.
func (c *Ctx) SetKnown(id string) {
	if c.fail != nil {
		c.fail.Known = id
	}
}

// Choices returns the choices made so far.
func (c *Ctx) Choices() []int { return c.choices }

// Exec is the record of one finished execution.
type Exec struct {
	Choices []int
	Points  []Point
	Obs     uint64
	Fail    *Failure
	NonTriv bool
	Class   string
	Tags    map[string]bool
	Trace   []string
}

// Body is a harness body.
type Body func(c *Ctx)

// Options configure one exploration.
type Options struct {
	Bound      int   // deviation bound (ignored when all costs are 0)
	Shard      int   // this worker's index
	NShards    int   // number of workers
	SplitDepth int   // DFS nesting level at which subtrees are dealt to shards (default 2)
	MaxExecs   int64 // safety cap; reaching it clears Exhaustive
	Deadline   func() bool
	Journal    string // file receiving the choice prefix of the execution in progress
	OnExec     func(x *Exec, counted bool)
}

// Explorer carries the counters of one exploration.
type Explorer struct {
	opt        Options
	body       Body
	Execs      int64 // executions run by this worker (including uncounted shared ancestors)
	Counted    int64 // executions this worker is responsible for
	Points     int64
	Exhaustive bool
	levelCount int
	stop       bool
}

func runOne(body Body, prefix []int, strict bool) (x *Exec) {
	c := &Ctx{prefix: prefix, strict: strict}
	defer func() {
		if r := recover(); r != nil {
			if he, ok := r.(HarnessError); ok {
				panic(he)
			}
			// a panic escaping the body is a harness bug: bodies must catch
			// panics of the code under test themselves
			panic(HarnessError{fmt.Sprintf("panic escaped harness body: %v\n%s", r, debug.Stack())})
		}
	}()
	body(c)
	if len(c.choices) < len(prefix) {
		tr := c.trace
		if len(tr) > 6 {
			tr = tr[len(tr)-6:]
		}
		panic(HarnessError{fmt.Sprintf("replay divergence: execution ended after %d choice points, prefix has %d (prefix %s)\n%s", len(c.choices), len(prefix), ChoicesString(prefix), strings.Join(tr, "\n"))})
	}
	if c.fail != nil {
		c.fail.Choices = append([]int{}, c.choices...)
		c.fail.Trace = c.trace
	}
	return &Exec{Choices: c.choices, Points: c.points, Obs: c.obs, Fail: c.fail, NonTriv: c.nontriv, Class: c.class, Tags: c.tags, Trace: c.trace}
}

// RunOnce executes the body once with exactly the given choices (replay).
func RunOnce(body Body, choices []int) *Exec { return runOne(body, choices, true) }

// Explore runs the DFS.
func Explore(body Body, opt Options) *Explorer {
	if opt.NShards <= 0 {
		opt.NShards = 1
	}
	if opt.SplitDepth <= 0 {
		opt.SplitDepth = 2
	}
	e := &Explorer{opt: opt, body: body, Exhaustive: true}
	e.explore(nil, 0, true)
	return e
}

func (e *Explorer) explore(prefix []int, level int, mine bool) {
	if e.stop {
		return
	}
	if level == e.opt.SplitDepth {
		mine = e.levelCount%e.opt.NShards == e.opt.Shard
		e.levelCount++
		if !mine {
			return
		}
	}
	counted := mine && (level >= e.opt.SplitDepth || e.opt.Shard == 0)
	if e.opt.Journal != "" && counted {
		os.WriteFile(e.opt.Journal, []byte(ChoicesString(prefix)), 0644)
	}
	x := runOne(e.body, prefix, false)
	e.Execs++
	e.Points += int64(len(x.Points))
	if counted {
		e.Counted++
	}
	if e.opt.OnExec != nil {
		e.opt.OnExec(x, counted)
	}
	if e.opt.MaxExecs > 0 && e.Execs >= e.opt.MaxExecs {
		e.Exhaustive = false
		e.stop = true
		return
	}
	if e.opt.Deadline != nil && e.opt.Deadline() {
		e.Exhaustive = false
		e.stop = true
		return
	}
	cost := 0
	for i := 0; i < len(prefix); i++ {
		cost += x.Points[i].costOf(x.Choices[i])
	}
	for i := len(prefix); i < len(x.Points); i++ {
		p := x.Points[i]
		for alt := 1; alt < p.N; alt++ {
			if cost+p.costOf(alt) > e.opt.Bound {
				continue
			}
			np := make([]int, i+1)
			copy(np, x.Choices[:i])
			np[i] = alt
			e.explore(np, level+1, mine)
			if e.stop {
				return
			}
		}
		cost += p.costOf(x.Choices[i])
	}
}

func (p Point) costOf(v int) int {
	if p.Cost == nil || v >= len(p.Cost) {
		return 0
	}
	return p.Cost[v]
}

// ChoicesString renders a choice list compactly.
func ChoicesString(c []int) string {
	s := make([]string, len(c))
	for i, v := range c {
		s[i] = fmt.Sprint(v)
	}
	return strings.Join(s, ",")
}

// ParseChoices is the inverse of ChoicesString.
func ParseChoices(s string) []int {
	s = strings.TrimSpace(s)
	if s == "" {
		return nil
	}
	var out []int
	for _, f := range strings.Split(s, ",") {
		var v int
		fmt.Sscan(f, &v)
		out = append(out, v)
	}
	return out
}

// SortedKeys returns the keys of a string-keyed map in order.
func SortedKeys[V any](m map[string]V) []string {
	k := make([]string, 0, len(m))
	for s := range m {
		k = append(k, s)
	}
	sort.Strings(k)
	return k
}
