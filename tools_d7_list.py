#!/usr/bin/env python3
"""tools_d7_list.py : (maintainer tool, never run by a check) re-derive the list of individually known failing
inputs of finding D7 (C04) - torn flushes inside the D7 predicate that write every tree completely or not at
all and still fail - by running the quick tier of C04 in listing mode against /repo, and write it into
known_findings.json (args.tree_atomic_failing_inputs). Review the diff before committing."""
import json, os, subprocess, sys, tempfile
V = os.path.dirname(os.path.abspath(__file__))
ev = tempfile.mkdtemp(prefix="d7list-")
env = dict(os.environ, VERIF_C04_LISTKEYS="1", VERIF_EVIDENCE_DIR=ev, VERIF_WORK_SUFFIX="-d7list", VERIF_REPLAY_DIR=ev)
r = subprocess.run([os.path.join(V, "vcheck"), "run", "C04"], env=env, capture_output=True, text=True)
print(r.stdout[-600:])
e = json.load(open(os.path.join(ev, "C04.json")))
if not e["coverage"].get("exhaustive"):
    sys.exit("the listing run did not complete its bounds; list not written")
keys = sorted(k.split(":", 1)[1] for k in e["coverage"]["coverage_tags"] if k.startswith("d7-failing-key:"))
p = os.path.join(V, "known_findings.json")
k = json.load(open(p))
for f in k["findings"]:
    if f["id"] == "D7-torn-flush-with-new-pages":
        f["args"] = {"tree_atomic_failing_inputs": keys,
                     "note": "hash of (config, history, flush kind, torn state) of every image inside the predicate that writes each tree completely or not at all and still fails on the tree of the commit named in 'listed_at'; images of that kind outside this list must hold",
                     "listed_at": subprocess.run(["git", "-C", os.environ.get("VERIF_REPO", "/repo"), "rev-parse", "--short", "HEAD"], capture_output=True, text=True).stdout.strip()}
json.dump(k, open(p, "w"), indent=1)
print("listed", len(keys), "failing tree-atomic inputs; executed:", e["coverage"]["coverage_tags"].get("D7-tree-atomic-image-executed"))
