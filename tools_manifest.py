#!/usr/bin/env python3
"""Regenerates /verif/MANIFEST.json from checks.json (+ the texts kept in manifest_texts.json)."""
import json, os
V = os.path.dirname(os.path.abspath(__file__))
checks = json.load(open(os.path.join(V, "checks.json")))
texts = json.load(open(os.path.join(V, "manifest_texts.json")))
props = [json.loads(l) for l in open(os.path.join(V, "properties.jsonl"))]
m = {
    "version": 1,
    "setup_cmd": "./vcheck setup",
    "hooks": {
        "guard": "verif",
        "enable": "go test -c -tags verif (the checks build a mirror of /repo's working tree with -tags verif; hooks live in storage/verif_on.go / verif_off.go plus one-line call sites in storage/page.go and storage/wal.go)",
        "baseline_off_cmd": "cd /repo && GOFLAGS=-mod=mod go test -json -vet=off -count=1 -timeout 25m ./...",
        "source_commits": texts["hook_commits"],
        "add_only": True,
    },
    "engines": [
        {"name": "vcheck", "path": "/verif/vcheck", "serves_properties": sorted(checks.keys()),
         "kind_free_text": "driver: mirrors /repo's working tree, injects in-package harnesses, builds with -tags verif, runs sharded worker processes, merges reports, writes evidence, prints VIOLATION/KNOWN-FINDING"},
        {"name": "lib", "path": "/verif/lib", "serves_properties": sorted(checks.keys()),
         "kind_free_text": "hand-written stateless deviation-bounded DFS explorer over choice sequences (histories, crash points, torn-write subsets, schedules), report/evidence plumbing"},
    ],
    "checks": [],
    "not_applicable": [],
    "notes": texts.get("notes", ""),
}
for p in props:
    pid = p["id"]
    if pid in checks:
        c = checks[pid]
        t = texts["checks"].get(pid, {})
        m["checks"].append({
            "property_id": pid,
            "quick_cmd": "./vcheck run %s --tier quick" % pid,
            "thorough_cmd": "./vcheck run %s --tier thorough" % pid,
            "evidence_file": "/verif/evidence/%s.json" % pid,
            "replay_cmd_template": "./vcheck replay {path}",
            "engine": "vcheck",
            "level_claimed": {"category": c.get("level", "exploration"), "text": t.get("text", c.get("technique", "")), "design_ref": t.get("design_ref", "DESIGN.md §4 " + pid)},
            "level_note": t.get("note", "; ".join(c.get("assumptions", []))),
            "technique": c.get("technique", ""),
        })
    else:
        m["not_applicable"].append({"property_id": pid, "reason": texts["not_applicable"].get(pid, "check not built yet in this session; planned procedure in DESIGN.md §4 " + pid)})
json.dump(m, open(os.path.join(V, "MANIFEST.json"), "w"), indent=1)
print("MANIFEST.json: %d checks, %d not_applicable" % (len(m["checks"]), len(m["not_applicable"])))
