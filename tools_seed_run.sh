#!/bin/bash
# tools_seed_run.sh <seed-id> <check>... : run checks (quick) against a seeded change.
# The change is applied to a scratch worktree of /repo HEAD (VERIF_REPO), so /repo itself
# and any background run using it stay untouched; equivalent to
#   git -C /repo apply <patch>; ./vcheck run <check>; git -C /repo checkout -- .
id=$1; shift
here=$(cd "$(dirname "$0")" && pwd)
wt=/tmp/sr-$id
git -C /repo worktree remove --force $wt 2>/dev/null; rm -rf $wt
git -C /repo worktree add -q --detach $wt HEAD || exit 2
git -C $wt apply $here/seeded/$id/patch.diff || { echo "patch does not apply"; git -C /repo worktree remove --force $wt; exit 2; }
cd "$here"
mkdir -p /tmp/sr-out-$id
for c in "$@"; do
  out=$(VERIF_REPO=$wt VERIF_EVIDENCE_DIR=/tmp/sr-out-$id VERIF_REPLAY_DIR=/tmp/sr-out-$id VERIF_WORK_SUFFIX=-seed ./vcheck run $c 2>&1); rc=$?
  echo "SEED $id CHECK $c rc=$rc :: $(echo "$out" | grep -E '^check' | head -1)"
  echo "$out" | grep -A2 VIOLATION | grep -v "have:\|want:" | cut -c1-400 | head -5
  [ $rc = 2 ] && echo "$out" | tail -5
done
git -C /repo worktree remove --force $wt; rm -rf $wt /tmp/sr-out-$id
