#!/bin/bash
# tools_seed_run.sh <seed-id> <check>... : apply a seeded change to /repo, run checks (quick), undo.
id=$1; shift
cd /verif
git -C /repo status --short | grep -q . && { echo "/repo not clean"; exit 2; }
git -C /repo apply /verif/seeded/$id/patch.diff || exit 2
for c in "$@"; do
  out=$(./vcheck run $c 2>&1); rc=$?
  echo "SEED $id CHECK $c rc=$rc :: $(echo "$out" | grep -E '^check|VIOLATION' | head -2 | tr '\n' ' ')"
  echo "$out" | grep -A3 VIOLATION | head -6
done
git -C /repo checkout -- .
rm -f /verif/replays/*.json
