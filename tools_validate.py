#!/usr/bin/env python3
import json, sys, glob, jsonschema
ms = json.load(open('/root/.vp/MANIFEST.schema.json'))
es = json.load(open('/root/.vp/EVIDENCE.schema.json'))
m = json.load(open('/verif/MANIFEST.json'))
jsonschema.validate(m, ms)
print("manifest ok: %d checks, %d n/a" % (len(m['checks']), len(m.get('not_applicable', []))))
ids = {json.loads(l)['id'] for l in open('/verif/properties.jsonl')}
claimed = {c['property_id'] for c in m['checks']}
na = {c['property_id'] for c in m.get('not_applicable', [])}
assert claimed | na == ids, (ids - claimed - na)
assert not (claimed & na)
for f in sorted(glob.glob('/verif/evidence/*.json')):
    e = json.load(open(f))
    try:
        jsonschema.validate(e, es)
        print(f, "ok", e['coverage'].get('evaluations'), e['coverage'].get('distinct_nontrivial'))
    except Exception as ex:
        print(f, "INVALID", str(ex)[:300])
