package main

import (
	"fmt"
	"io"
	"os"
	"path/filepath"
	"sort"
	"strings"
	"sync/atomic"
	"syscall"
	"testing"
	"time"
	"unicode/utf8"
	"unsafe"

	"github.com/mk6i/mkdb/engine"
	"github.com/mk6i/mkdb/sql"
	"github.com/mk6i/mkdb/storage"
	"verif/lib"
)

// C20 — the console submits exactly the statements that were typed.
// In-package: Terminal.ReadLine over a byte stream with separate reader and
// writer (the terminal echoes into its writer), driven by the same loop as
// runTerminal. Enumerated: statement lists over fragments whose literals
// contain semicolons, the other quote kind, blanks, multi-byte characters, or
// end in a semicolon; every placement of line breaks (CR) in the gaps between
// tokens (and inside literals at blanks); blanks / line breaks / nothing
// between statements; trailing blanks; Read chunk sizes 1, 2, 255, everything
// (typed vs pasted); and a length family around the 4096-rune line limit.

func TestVerif(t *testing.T) {
	env := lib.GetEnv()
	if env.Check == "" {
		t.Skip("not run by vcheck")
	}
	lib.Silence()
	rep := lib.NewReport(env)
	lib.Main(env, rep, func() {
		if env.Check != "C20" {
			panic(lib.HarnessError{Msg: "package cmd/console has no harness for " + env.Check})
		}
		runC20(env, rep)
	})
}

type chunkReader struct {
	data  []byte
	chunk int
}

func (r *chunkReader) Read(p []byte) (int, error) {
	if len(r.data) == 0 {
		return 0, io.EOF
	}
	n := r.chunk
	if n <= 0 || n > len(r.data) {
		n = len(r.data)
	}
	if n > len(p) {
		n = len(p)
	}
	copy(p, r.data[:n])
	r.data = r.data[n:]
	return n, nil
}

type termIO struct {
	io.Reader
	io.Writer
}

// submit feeds the bytes to a fresh terminal exactly like runTerminal's loop
// and returns every statement handed to the engine.
func c20Submit(input string, chunk int) (got []string, err error, pan any) {
	defer func() {
		if x := recover(); x != nil {
			pan = x
		}
	}()
	t := NewTerminal(termIO{&chunkReader{data: []byte(input), chunk: chunk}, io.Discard}, "")
	t.SetPrompt(" > ")
	for {
		lines, e := t.ReadLine()
		if e == io.EOF {
			break
		} else if e != nil {
			return got, e, nil
		}
		got = append(got, lines...)
	}
	return got, nil, nil
}

// a fragment is a statement as a list of tokens; gaps between tokens may be a
// blank or a line break. A token of the form 'a;| b' marks with | a blank
// inside a literal that may also be typed as a line break.
var c20Fragments = [][]string{
	{"USE", "d", ";"},
	{"SELECT", "'a;b'", "FROM", "t", ";"},
	{"INSERT", "INTO", "t", "VALUES", "(", "'x;'", ",", "\"q;q\"", ")", ";"},
	{"SELECT", "'it\"s;'", ",", "\"a'b;\"", "FROM", "t", ";"},
	{"SELECT", "'two  blanks ; '", "FROM", "t", ";"},
	{"SELECT", "'é;ü'", "FROM", "t", ";"},
	{"SELECT", "''", ",", "';'", "FROM", "t", ";"},
	{"SELECT", "'ends;'", ";"},
	{"SELECT", "'a;| b'", "FROM", "t", ";"},
	{"DELETE", "FROM", "t", "WHERE", "c", "=", "';;'", ";"},
	{"SELECT", "'C:\\\\tmp\\\\'", "FROM", "t", ";"},              // literal ending in an escaped backslash
	{"SELECT", "'it\\'s;'", ",", "\"q\\\";\"", "FROM", "t", ";"}, // escaped quotes followed by a semicolon inside the literal
	// ^ marks a place inside a literal where a line break may be typed in addition to what is there: after a
	// blank, before a blank, twice in a row (an empty continuation line)
	{"SELECT", "'hello ^world;'", "FROM", "t", ";"},
	{"SELECT", "'🙂;；ｘ\uffee\U0010ffff'", "FROM", "t", ";"}, // characters beyond the private key codes of the line editor (emoji, fullwidth forms, the last code point)
	{"SELECT", "'\ud7ff\ue000;'", ";"},                     // the code points right below and above the surrogate range
	{"SELECT", "'a;^ b^^c'", ";"},
	{";"},                                       // an empty statement: the statements around it still arrive, whole and once
	{"SELECT", "'src/*.go;'", "FROM", "t", ";"}, // what other dialects read as comment marks is plain text inside a literal
	{"SELECT", "'*/;--x'", ",", "\"#;//\"", ";"},
}

// render types one statement with the given gap choices (bit i set = line break in gap i).
func c20Render(frag []string, breaks uint) (typed string) {
	var sb strings.Builder
	gap := 0
	sep := func() string {
		s := " "
		if breaks>>uint(gap)&1 == 1 {
			s = "\r"
		}
		gap++
		return s
	}
	for i, tok := range frag {
		if i > 0 {
			sb.WriteString(sep())
		}
		if strings.Contains(tok, "^") {
			parts := strings.Split(tok, "^")
			for pi, part := range parts {
				if pi > 0 && sep() == "\r" {
					sb.WriteString("\r")
				}
				sb.WriteString(part)
			}
		} else if strings.Contains(tok, "|") {
			parts := strings.SplitN(tok, "|", 2)
			sb.WriteString(parts[0])
			s := sep()
			if s == " " {
				sb.WriteString(parts[1]) // parts[1] starts with the blank
			} else {
				sb.WriteString(s + strings.TrimPrefix(parts[1], " "))
			}
		} else {
			sb.WriteString(tok)
		}
	}
	return sb.String()
}

func c20Gaps(frag []string) int {
	n := len(frag) - 1
	for _, t := range frag {
		if strings.Contains(t, "|") {
			n++
		}
		n += strings.Count(t, "^")
	}
	return n
}

// expected statement text: a line break becomes a blank, surrounding blanks are trimmed
func c20Expect(typed string) string {
	return strings.TrimSpace(strings.ReplaceAll(typed, "\r", " "))
}

func runC20(env *lib.Env, rep *lib.Report) {
	known := env.OpenKnown()
	chunks := []int{1, 2, 255, 0}
	if env.Thorough() {
		chunks = []int{1, 2, 3, 5, 7, 16, 255, 256, 257, 0}
	}
	fails := map[string]int{}
	var n int64
	var wantOverride []string // set by families that compute the expected statements from the whole typed text
	check := func(family string, stmts []string, betweens []string, trailing string, chunk int) {
		n++
		if int(n%int64(env.NShards)) != env.Shard {
			return
		}
		var sb strings.Builder
		var want []string
		for i, s := range stmts {
			if i > 0 {
				sb.WriteString(betweens[i-1])
			}
			sb.WriteString(s)
			want = append(want, c20Expect(s))
		}
		sb.WriteString(trailing + "\r")
		input := sb.String()
		if wantOverride != nil {
			want = wantOverride
		}
		got, err, pan := c20Submit(input, chunk)
		// an empty statement (a terminator with nothing in front of it) carries no text: whether the console hands
		// it on or leaves it out is not part of the property; everything around it is
		want, got = c20DropEmpty(want), c20DropEmpty(got)
		problem := ""
		switch {
		case pan != nil:
			problem = fmt.Sprintf("terminal panicked: %v", pan)
		case err != nil:
			problem = fmt.Sprintf("ReadLine returned an error that ends the console: %v", err)
		case len(got) != len(want):
			problem = fmt.Sprintf("%d statements were typed, %d reached the engine", len(want), len(got))
		default:
			for i := range want {
				if got[i] != want[i] {
					problem = fmt.Sprintf("statement %d reached the engine as %q", i+1, clip(got[i]))
					break
				}
			}
		}
		multiline := strings.Contains(strings.TrimSuffix(input, "\r"), "\r")
		nontrivial := multiline || strings.Contains(input, ";'") || strings.Contains(input, ";\"") || strings.Contains(input, "';") || len(stmts) > 1
		rep.AddCase(nontrivial, lib.HashString(family+"|"+input), lib.HashString(problem))
		if problem == "" {
			if nontrivial && rep.WantSample() {
				rep.AddSample(map[string]any{"family": family, "typed": clip(input), "read chunk": chunk, "statements": len(want)})
			}
			return
		}
		f := &lib.Failure{Kind: "console", Detail: fmt.Sprintf("[%s, read chunk %d] typed %q\n expected %q\n got      %q\n %s", family, chunk, clip(input), clipAll(want), clipAll(got), problem), Trace: []string{family, input, fmt.Sprint(chunk)}}
		if _, open := known["D23-input-beyond-4096-runes-dropped"]; open && c20MaxPending(input) > 4096 {
			f.Known = "D23-input-beyond-4096-runes-dropped"
		}
		key := family + "|" + strings.SplitN(problem, " ", 3)[0] + f.Known
		fails[key]++
		if f.Known != "" || fails[key] <= 3 {
			rep.AddFailure(f)
		} else {
			rep.FailCount++
		}
	}
	// (1) single statements: every placement of line breaks in every gap x chunk sizes x trailing blanks
	for _, frag := range c20Fragments {
		g := c20Gaps(frag)
		for b := uint(0); b < 1<<uint(g); b++ {
			for _, ch := range chunks {
				for _, tr := range []string{"", "  "} {
					check("single", []string{c20Render(frag, b)}, nil, tr, ch)
				}
			}
		}
	}
	// (2) lists of 2 (thorough 3) statements: every pair x separators between statements x break patterns
	patterns := func(frag []string) []uint {
		g := c20Gaps(frag)
		out := []uint{0, 1<<uint(g) - 1}
		for i := 0; i < g; i++ {
			out = append(out, 1<<uint(i))
		}
		return out
	}
	for i, f1 := range c20Fragments {
		for j, f2 := range c20Fragments {
			for _, b1 := range patterns(f1) {
				for _, b2 := range patterns(f2) {
					if b1 != 0 && b2 != 0 && (i+j)%3 != 0 && !env.Thorough() {
						continue
					}
					for _, between := range []string{" ", "\r", "", "  \r ", "\r\r", "\r \r"} { // (the last two: an empty / a blank line between the statements)
						for _, ch := range chunks {
							check("pair", []string{c20Render(f1, b1), c20Render(f2, b2)}, []string{between}, "", ch)
						}
					}
				}
			}
			if env.Thorough() {
				for _, f3 := range c20Fragments {
					for _, between := range []string{" ", "\r", ""} {
						for _, ch := range chunks {
							check("triple", []string{c20Render(f1, 0), c20Render(f2, 1), c20Render(f3, 0)}, []string{between, between}, "", ch)
						}
					}
				}
			}
		}
	}
	// (2b) repeated statements: the same statement twice in a row (or with one in between) and others around it,
	// on one line and with Enter after the first statement (whatever the console remembers of what it has
	// already seen - history, the previous submission - every statement typed is handed on once more)
	for _, fa := range c20Fragments {
		for _, fb := range c20Fragments {
			a, b := c20Render(fa, 0), c20Render(fb, 0)
			if a == b {
				continue
			}
			for _, list := range [][]string{{a, a, b}, {a, b, b}, {a, b, a}, {a, a, a}, {a, a, b, b}, {b, a, a, b}} {
				for _, first := range []string{" ", "\r"} {
					betw := []string{first}
					for len(betw) < len(list)-1 {
						betw = append(betw, " ")
					}
					for _, ch := range []int{0, 1} {
						check("repeated-statements", list, betw, "", ch)
					}
				}
			}
		}
	}
	// (3) length family: the accumulated buffer (all statements of the submission) around the 4096-rune limit
	for _, total := range []int{4000, 4095, 4096, 4097, 5000} {
		for _, lead := range [][]string{nil, {"USE d;"}, {"SELECT 'a;b' FROM t;", "USE d;"}} {
			used := 0
			var betw []string
			for range lead {
				betw = append(betw, " ")
			}
			for _, l := range lead {
				used += len([]rune(l)) + 1
			}
			head := "SELECT '"
			tail := "' FROM t;"
			pad := total - used - len(head) - len(tail)
			if pad < 0 {
				continue
			}
			long := head + strings.Repeat("x", pad) + tail
			for _, ch := range []int{1, 255, 0} {
				check(fmt.Sprintf("length/%d", total), append(append([]string{}, lead...), long), betw, "", ch)
			}
			// the same split over several lines
			broken := head + strings.Repeat("x", pad/2) + "\r" + strings.Repeat("x", pad-pad/2-1) + tail
			check(fmt.Sprintf("length/%d/multiline", total), append(append([]string{}, lead...), broken), betw, "", 255)
		}
	}
	// (3b) Enter pressed at every character position of a line of several statements (also inside words and right
	// after an opening quote: whatever the user does there, every character typed reaches the engine, and a line
	// break counts as one blank)
	enterTexts := []string{"USE d;SELECT 'a;b' FROM t;", "a;'x;y';b ;", "INSERT INTO t VALUES ('q');S;\"w;\" ;", "x;yz;"}
	if env.Thorough() {
		// every pair of fragments typed on one line
		for _, fa := range c20Fragments {
			for _, fb := range c20Fragments {
				enterTexts = append(enterTexts, c20Render(fa, 0)+c20Render(fb, 0))
			}
		}
		rep.Bounds["enter-at-every-position (thorough)"] = fmt.Sprintf("%d lines: every pair of fragments on one line, Enter at every byte position that is a character boundary (and twice)", len(enterTexts))
	}
	for _, text := range enterTexts {
		for p := 1; p < len(text); p++ {
			if !utf8.RuneStart(text[p]) || text[p-1] == '\\' {
				continue // (Enter directly behind a backslash: what backslash-newline means inside a literal is not fixed by the property)
			}
			typed := text[:p] + "\r" + text[p:]
			wantOverride = c20RefSplit(strings.ReplaceAll(typed, "\r", " "))
			for _, ch := range []int{1, 0} {
				check("enter-at-every-position", []string{typed}, nil, "", ch)
			}
			// and twice: at p and once more two characters later
			if p+2 < len(text) && utf8.RuneStart(text[p+2]) && text[p+1] != '\\' {
				typed2 := text[:p] + "\r" + text[p:p+2] + "\r" + text[p+2:]
				wantOverride = c20RefSplit(strings.ReplaceAll(typed2, "\r", " "))
				check("enter-at-every-position", []string{typed2}, nil, "", 0)
			}
		}
	}
	// (3c) a long session: several hundred statements typed into one terminal, one per line and several per line
	// (whatever the line editor keeps of what was typed before - history, buffers - must not get in the way)
	for _, perLine := range []int{1, 3} {
		var sb strings.Builder
		var want []string
		for i := 0; i < 330; i++ {
			st := fmt.Sprintf("INSERT INTO t VALUES (%d, 'row;%d');", i, i)
			want = append(want, st)
			sb.WriteString(st)
			if i%perLine == perLine-1 {
				sb.WriteString("\r")
			} else {
				sb.WriteString(" ")
			}
		}
		wantOverride = want
		check(fmt.Sprintf("long-session/%d-per-line", perLine), []string{strings.TrimSuffix(sb.String(), "\r")}, nil, "", 0)
	}
	wantOverride = nil
	// (4) end to end through the real console loop: runTerminal on a pseudo-terminal, a real session
	// and a real database; what the engine was handed is read back from the database afterwards
	if env.Shard == 0 {
		c20Pty(env, rep)
	}
	rep.Bounds["fragments"] = len(c20Fragments)
	rep.Bounds["read chunk sizes"] = "1, 2, 255, whole input"
	rep.Bounds["line breaks"] = "CR (what a raw-mode terminal delivers for Enter and for pasted newlines); bare LF is not a key the terminal knows and is outside the enumeration; bracketed-paste markers are never sent because the console does not enable bracketed paste"
	rep.Bounds["submissions enumerated (all shards)"] = n
}

// c20MaxPending: the largest number of characters the console has to hold at once for this input - text accumulates
// line by line until a line ends with everything typed so far forming complete statements (the D23 predicate is
// about one such accumulation exceeding 4096 characters, not about the length of a whole session).
func c20MaxPending(input string) int {
	max := 0
	pending := ""
	for _, line := range strings.Split(input, "\r") {
		if pending != "" {
			pending += " "
		}
		pending += line
		if n := len([]rune(pending)); n > max {
			max = n
		}
		done := c20RefSplit(pending)
		rest := pending
		for _, st := range done {
			if i := strings.Index(rest, st); i >= 0 {
				rest = rest[i+len(st):]
			}
		}
		if strings.TrimSpace(rest) == "" && len(done) > 0 {
			pending = ""
		}
	}
	return max
}

// c20RefSplit is the reference meaning of a typed text (line breaks already replaced by blanks): statements end
// at semicolons outside quotes; what follows the last one is still pending and not handed over.
func c20DropEmpty(stmts []string) []string {
	var out []string
	for _, s := range stmts {
		if strings.TrimSpace(s) != ";" {
			out = append(out, s)
		}
	}
	return out
}

func c20RefSplit(text string) []string {
	var out []string
	var cur strings.Builder
	quote := rune(0)
	escaped := false
	for _, ch := range text {
		cur.WriteRune(ch)
		switch {
		case escaped:
			// (inside a literal a backslash takes the next character with it, as in the SQL scanner)
			escaped = false
		case quote != 0 && ch == '\\':
			escaped = true
		case quote != 0:
			if ch == quote {
				quote = 0
			}
		case ch == '\'' || ch == '"':
			quote = ch
		case ch == ';':
			out = append(out, strings.TrimSpace(cur.String()))
			cur.Reset()
		}
	}
	return out
}

func clip(s string) string {
	if len(s) > 160 {
		return s[:80] + fmt.Sprintf("…(%d bytes)…", len(s)) + s[len(s)-40:]
	}
	return s
}

func clipAll(ss []string) []string {
	out := make([]string, len(ss))
	for i, s := range ss {
		out[i] = clip(s)
	}
	return out
}

// ---- pseudo-terminal family --------------------------------------------------

func ioctl(fd uintptr, req uintptr, arg unsafe.Pointer) error {
	if _, _, e := syscall.Syscall(syscall.SYS_IOCTL, fd, req, uintptr(arg)); e != 0 {
		return e
	}
	return nil
}

func openPty() (master, slave *os.File, err error) {
	master, err = os.OpenFile("/dev/ptmx", os.O_RDWR, 0)
	if err != nil {
		return nil, nil, err
	}
	var n uint32
	if err = ioctl(master.Fd(), syscall.TIOCGPTN, unsafe.Pointer(&n)); err != nil {
		return nil, nil, err
	}
	var unlock int32
	if err = ioctl(master.Fd(), syscall.TIOCSPTLCK, unsafe.Pointer(&unlock)); err != nil {
		return nil, nil, err
	}
	slave, err = os.OpenFile(fmt.Sprintf("/dev/pts/%d", n), os.O_RDWR|syscall.O_NOCTTY, 0)
	return master, slave, err
}

type ptyScript struct {
	name   string
	typed  string              // what the user types (CR = Enter); Ctrl-D is appended
	dbs    []string            // databases that must exist afterwards
	tables map[string][]string // "db.table" -> values of column c in order
	paste  bool                // the text arrives as one paste: a terminal that was asked for bracketed paste wraps it in ESC[200~ / ESC[201~
}

// runOnPty feeds the script to the real runTerminal over a pseudo-terminal.
func runOnPty(sc ptyScript, chunk int) (problem string) {
	dir := filepath.Join(lib.ScratchRoot(), fmt.Sprintf("pty-%d", time.Now().UnixNano()))
	os.MkdirAll(dir, 0755)
	home, _ := os.Getwd()
	os.Chdir(dir)
	defer func() { os.Chdir(home); os.RemoveAll(dir) }()
	if err := storage.InitStorage(); err != nil {
		panic(lib.HarnessError{Msg: err.Error()})
	}
	master, slave, err := openPty()
	if err != nil {
		panic(lib.HarnessError{Msg: "no pseudo-terminal available: " + err.Error()})
	}
	defer master.Close()
	defer slave.Close()
	// the console reads os.Stdin and writes os.Stdout and puts fd 0 into raw mode
	save0, _ := syscall.Dup(0)
	save1, _ := syscall.Dup(1)
	syscall.Dup2(int(slave.Fd()), 0)
	syscall.Dup2(int(slave.Fd()), 1)
	restore := func() {
		syscall.Dup2(save0, 0)
		syscall.Dup2(save1, 1)
		syscall.Close(save0)
		syscall.Close(save1)
	}
	// drain what the console echoes, or the pty buffer fills up and the console blocks
	prompt := make(chan struct{})
	var bracketed atomic.Bool // the console asked the terminal for bracketed paste (ESC[?2004h)
	go func() {
		buf := make([]byte, 4096)
		first := true
		tail := ""
		for {
			n, err := master.Read(buf)
			if err != nil {
				return
			}
			out := tail + string(buf[:n])
			if i, j := strings.LastIndex(out, "\x1b[?2004h"), strings.LastIndex(out, "\x1b[?2004l"); i >= 0 || j >= 0 {
				bracketed.Store(i > j)
			}
			if len(out) > 8 {
				tail = out[len(out)-8:]
			} else {
				tail = out
			}
			if first {
				first = false
				close(prompt)
			}
		}
	}()
	sess := &engine.Session{}
	done := make(chan error, 1)
	go func() { done <- runTerminal(sess) }()
	// the prompt is printed after the terminal has been put into raw mode; typing earlier would let
	// the line discipline of the fresh pty eat the control characters
	select {
	case <-prompt:
	case <-time.After(30 * time.Second):
		restore()
		panic(lib.HarnessError{Msg: "the console printed no prompt on the pseudo-terminal"})
	}
	text := sc.typed
	if sc.paste && bracketed.Load() {
		text = "\x1b[200~" + text + "\x1b[201~"
	}
	input := []byte(text + "\x04")
	for len(input) > 0 {
		n := chunk
		if n <= 0 || n > len(input) {
			n = len(input)
		}
		master.Write(input[:n])
		input = input[n:]
		if chunk > 0 {
			time.Sleep(200 * time.Microsecond)
		}
	}
	select {
	case err := <-done:
		restore()
		if err != nil {
			return "runTerminal returned an error: " + err.Error()
		}
	case <-time.After(60 * time.Second):
		restore()
		return "the console did not finish within 60 s after Ctrl-D"
	}
	sess.Close()
	// read back what reached the engine
	rows, _, err := storage.ShowDB()
	if err != nil {
		return "SHOW DATABASES: " + err.Error()
	}
	var got []string
	for _, r := range rows {
		got = append(got, fmt.Sprint(r.Vals[0]))
	}
	sort.Strings(got)
	want := append([]string{}, sc.dbs...)
	sort.Strings(want)
	if strings.Join(got, ",") != strings.Join(want, ",") {
		return fmt.Sprintf("databases afterwards: %v, the typed statements create %v", got, want)
	}
	for _, key := range lib.SortedKeys(sc.tables) {
		parts := strings.SplitN(key, ".", 2)
		s2 := &engine.Session{}
		if err := s2.ExecQuery("USE " + parts[0]); err != nil {
			return "USE " + parts[0] + ": " + err.Error()
		}
		ts := sql.NewTokenScanner(strings.NewReader("SELECT c FROM " + parts[1]))
		tl := sql.TokenList{}
		for ts.Next() {
			tl.Add(ts.Cur())
		}
		p := sql.Parser{TokenList: tl}
		st, _ := p.Parse()
		res, _, err := engine.EvaluateSelect(st.(sql.Select), s2.RelationService)
		s2.Close()
		if err != nil {
			return "SELECT c FROM " + key + ": " + err.Error()
		}
		var vals []string
		for _, r := range res {
			vals = append(vals, fmt.Sprint(r.Vals[0]))
		}
		if strings.Join(vals, "|") != strings.Join(sc.tables[key], "|") {
			return fmt.Sprintf("table %s holds %q, the typed statements store %q", key, vals, sc.tables[key])
		}
	}
	return ""
}

func c20Pty(env *lib.Env, rep *lib.Report) {
	if m, sl, err := openPty(); err != nil {
		// no pseudo-terminals in this environment: the family cannot run; say so instead of failing
		rep.Bounds["pty family"] = "NOT RUN: no pseudo-terminal available (" + err.Error() + ")"
		return
	} else {
		m.Close()
		sl.Close()
	}
	scripts := []ptyScript{
		{"failing statement in the middle of a line",
			"CREATE DATABASE x1; CREATE DATABASE x1; CREATE DATABASE x2;\r",
			[]string{"x1", "x2"}, nil, false},
		{"failing statements between good ones, literals with semicolons",
			"CREATE DATABASE x1;\rUSE x1; CREATE TABLE t (c varchar(255));\rINSERT INTO t VALUES ('a;b'); INSERT INTO t VALUES ('bad', 1); INSERT INTO nosuch VALUES ('n'); INSERT INTO t VALUES ('c ; d');\rINSERT INTO t\rVALUES ('e');\r",
			[]string{"x1"}, map[string][]string{"x1.t": {"a;b", "c ; d", "e"}}, false},
		{"syntax error first, then good statements on the same line",
			"SELEKT 1; CREATE DATABASE y1; USE y1; CREATE TABLE t (c varchar(255)); INSERT INTO t VALUES ('one'), ('two');\r",
			[]string{"y1"}, map[string][]string{"y1.t": {"one", "two"}}, false},
		{"two databases, switching back and forth, multi-line statements",
			"CREATE DATABASE a1; CREATE DATABASE b1;\rUSE a1;\rCREATE TABLE t\r(c varchar(255));\rINSERT INTO t VALUES ('in a');\rUSE b1; CREATE TABLE t (c varchar(255)); INSERT INTO t VALUES ('in b'); USE a1; INSERT INTO t VALUES ('again a');\r",
			[]string{"a1", "b1"}, map[string][]string{"a1.t": {"in a", "again a"}, "b1.t": {"in b"}}, false},
	}
	// the same scripts once more, arriving as a paste (what a terminal does with it depends on what the console
	// asked for)
	for _, sc := range scripts[:2] {
		sc.paste, sc.name = true, sc.name+" (pasted)"
		scripts = append(scripts, sc)
	}
	for _, sc := range scripts {
		for _, chunk := range []int{0, 1, 7} {
			problem := runOnPty(sc, chunk)
			rep.AddCase(true, lib.HashString("pty|"+sc.name+fmt.Sprint(chunk)), lib.HashString(problem))
			if problem != "" {
				rep.AddFailure(&lib.Failure{Kind: "console", Detail: fmt.Sprintf("[pty: %s, write chunk %d] typed %q\n %s", sc.name, chunk, sc.typed, problem), Trace: []string{"pty", sc.typed, fmt.Sprint(chunk)}})
			} else if rep.WantSample() {
				rep.AddSample(map[string]any{"family": "pty (real runTerminal on a pseudo-terminal)", "typed": sc.typed})
			}
		}
	}
	rep.Bounds["pty family"] = fmt.Sprintf("%d scripts x 3 write chunkings through the real runTerminal loop on a pseudo-terminal with a real session; databases and table contents read back afterwards", len(scripts))
}
