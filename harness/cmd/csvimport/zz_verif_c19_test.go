package main

import (
	"encoding/csv"
	"fmt"
	"io"
	"os"
	"path/filepath"
	"runtime/debug"
	"strconv"
	"strings"
	"testing"

	"github.com/mk6i/mkdb/engine"
	"github.com/mk6i/mkdb/sql"
	"github.com/mk6i/mkdb/storage"
	"verif/lib"
)

// C19 — CSV import stores every accepted record faithfully. In-package:
// colDataTypes + doBatchInsert against a real relation service, then SELECT *.
// Enumerated: destination schemas x column mappings x separators x record
// streams over a field alphabet (valid values, values beyond 32/64 bits, \N,
// text, empty, quoted field containing the separator, boolean spellings) and
// record defects (short record, bare quote, unterminated quote at the end).

func TestVerif(t *testing.T) {
	env := lib.GetEnv()
	if env.Check == "" {
		t.Skip("not run by vcheck")
	}
	lib.Silence()
	rep := lib.NewReport(env)
	lib.Main(env, rep, func() {
		if env.Check != "C19" {
			panic(lib.HarnessError{Msg: "package cmd/csvimport has no harness for " + env.Check})
		}
		runC19(env, rep)
	})
}

type c19Field struct {
	text string // raw CSV field text (unquoted form)
	kind string
}

func c19Fields(typ string) []c19Field {
	common := []c19Field{{"\\N", "null"}}
	// texts that look like the NULL marker and are not it: ordinary text for a VARCHAR, unparsable for the other types
	near := "bad"
	if typ == "varchar" {
		near = "ok"
	}
	common = append(common, c19Field{"\\n", near}, c19Field{"\\NN", near})
	switch typ {
	case "int":
		return append(common, c19Field{"7", "ok"}, c19Field{"-3", "ok"}, c19Field{"2147483647", "ok"}, c19Field{"2147483648", "bad"}, c19Field{"abc", "bad"}, c19Field{"", "bad"},
			c19Field{"010", "ok"}, c19Field{"0x1F", "bad"}, c19Field{"1_000", "bad"}, c19Field{" 5", "bad"}, c19Field{"#7", "bad"})
	case "bigint":
		return append(common, c19Field{"7", "ok"}, c19Field{"-9223372036854775808", "ok"}, c19Field{"4294967296", "ok"}, c19Field{"9223372036854775808", "bad"}, c19Field{"x1", "bad"},
			c19Field{"010", "ok"}, c19Field{"-017", "ok"}, c19Field{"0x1F", "bad"}, c19Field{"0b101", "bad"}, c19Field{"1_000", "bad"}, c19Field{"", "bad"})
	case "boolean":
		return append(common, c19Field{"1", "ok"}, c19Field{"0", "ok"}, c19Field{"t", "ok"}, c19Field{"f", "ok"}, c19Field{"TRUE", "ok"}, c19Field{"false", "ok"}, c19Field{"x", "bad"}, c19Field{"", "bad"},
			c19Field{"2", "bad"}, c19Field{"-1", "bad"}, c19Field{"00", "bad"}, c19Field{"yes", "bad"})
	}
	return append(common, c19Field{"text", "ok"}, c19Field{"", "ok"}, c19Field{"has SEP inside", "ok"}, c19Field{"it's; \"quoted\"", "ok"}, c19Field{"1", "ok"}, c19Field{"#tag", "ok"}, c19Field{"José ñ 日本🙂", "ok"},
		c19Field{strings.Repeat("L", 500), "bad"}) // converts fine but the row exceeds the 400-byte limit: the INSERT must refuse it
}

// expected conversion, written independently of csvToSql
func c19Convert(typ, text string) (any, bool) {
	if text == "\\N" {
		return nil, true
	}
	switch typ {
	case "int":
		v, err := strconv.ParseInt(text, 10, 64)
		if err != nil || v > 2147483647 || v < -2147483648 {
			return nil, false
		}
		return v, true
	case "bigint":
		v, err := strconv.ParseInt(text, 10, 64)
		if err != nil {
			return nil, false
		}
		return v, true
	case "boolean":
		switch strings.ToLower(text) {
		case "1", "true", "t":
			return true, true
		case "0", "false", "f":
			return false, true
		}
		return nil, false
	}
	return text, true
}

func c19Quote(field string, sep rune) string {
	if strings.ContainsAny(field, string(sep)+"\"\n") || field == "" && false {
		return "\"" + strings.ReplaceAll(field, "\"", "\"\"") + "\""
	}
	return field
}

type c19DB struct {
	dir    string
	sess   *engine.Session
	tables int
}

var c19Home string
var c19Seq int

func c19NewDB() *c19DB {
	if c19Home == "" {
		c19Home, _ = os.Getwd()
	}
	storage.VerifInstall(true, 0, 0, 0)
	c19Seq++
	d := &c19DB{dir: filepath.Join(lib.ScratchRoot(), fmt.Sprintf("c19-%d", c19Seq))}
	os.MkdirAll(d.dir, 0755)
	os.Chdir(d.dir)
	if err := storage.InitStorage(); err != nil {
		panic(lib.HarnessError{Msg: err.Error()})
	}
	d.sess = &engine.Session{}
	for _, q := range []string{"CREATE DATABASE d", "USE d"} {
		if err := d.sess.ExecQuery(q); err != nil {
			panic(lib.HarnessError{Msg: q + ": " + err.Error()})
		}
	}
	return d
}

func (d *c19DB) destroy() {
	func() {
		defer func() { recover() }()
		storage.VerifAbandon(d.sess.RelationService)
	}()
	storage.VerifForgetStores()
	os.Chdir(c19Home)
	os.RemoveAll(d.dir)
}

type c19Case struct {
	types    []string // destination column types, in table order
	dstCols  []int    // destination column indexes that are mapped (in mapping order)
	srcCols  []int    // CSV field index for each mapped destination column
	sep      rune
	records  []c19Record
	viaFlags bool // the configuration is built by makeConfig from the command line flags (else directly)
}

type c19Record struct {
	fields []string // raw field texts for the CSV columns 0..2
	defect string   // "" | short | barequote | unterminated
}

func parseSelectAll(table string) sql.Select {
	ts := sql.NewTokenScanner(strings.NewReader("SELECT * FROM " + table))
	tl := sql.TokenList{}
	for ts.Next() {
		tl.Add(ts.Cur())
	}
	p := sql.Parser{TokenList: tl}
	st, err := p.Parse()
	if err != nil {
		panic(lib.HarnessError{Msg: err.Error()})
	}
	return st.(sql.Select)
}

// runCase imports one stream and returns "" or a description of the disagreement.
func (d *c19DB) runCase(cs c19Case) (problem string, nontrivial bool, desc string) {
	d.tables++
	table := fmt.Sprintf("imp%d", d.tables)
	var ddl []string
	names := make([]string, len(cs.types))
	for i, t := range cs.types {
		names[i] = fmt.Sprintf("c%d", i)
		if cs.viaFlags {
			// (column names with capital letters when the configuration comes from the command line)
			names[i] = []string{"Col", "cOL", "COL"}[i%3] + fmt.Sprint(i)
		}
		if t == "varchar" {
			ddl = append(ddl, names[i]+" varchar(255)")
		} else {
			ddl = append(ddl, names[i]+" "+t)
		}
	}
	if err := d.sess.ExecQuery(fmt.Sprintf("CREATE TABLE %s (%s)", table, strings.Join(ddl, ", "))); err != nil {
		panic(lib.HarnessError{Msg: "CREATE TABLE: " + err.Error()})
	}
	rm := d.sess.RelationService
	var dst []string
	for _, di := range cs.dstCols {
		dst = append(dst, names[di])
	}
	types, err := colDataTypes(rm, table, dst)
	if err != nil || types == nil {
		return fmt.Sprintf("colDataTypes failed: %v", err), false, ""
	}
	cfg := importCfg{colTypes: types, db: "d", dstCols: dst, separator: cs.sep, srcCols: cs.srcCols, table: table}
	if cs.viaFlags {
		// the way main() does it: flags -> makeConfig
		var src []string
		for _, s := range cs.srcCols {
			src = append(src, fmt.Sprint(s))
		}
		*cfgDb, *cfgDestCols, *cfgSep, *cfgSrcCols, *cfgTable = "d", strings.Join(dst, ","), string(cs.sep), strings.Join(src, ","), table
		var err error
		cfg, err = makeConfig(rm)
		if err != nil {
			return fmt.Sprintf("makeConfig refused -db d -dest-cols %s -separator %q -src-cols %s -table %s: %v", *cfgDestCols, *cfgSep, *cfgSrcCols, table, err), false, ""
		}
	}
	// render the stream
	var sb strings.Builder
	for _, r := range cs.records {
		var fs []string
		for _, f := range r.fields {
			fs = append(fs, c19Quote(strings.ReplaceAll(f, "SEP", string(cs.sep)), cs.sep))
		}
		line := strings.Join(fs, string(cs.sep))
		switch r.defect {
		case "short":
			line = fs[0]
		case "quoted-empty":
			line = "\"\""
		case "blanks-only":
			line = "  "
		case "barequote":
			line = "ab\"cd" + string(cs.sep) + line
		case "quote-then-text":
			line = "\"Per\"son" + string(cs.sep) + line // text after the closing quote of a quoted field
		case "unterminated":
			line = "\"never closed" + string(cs.sep) + line
		}
		sb.WriteString(line + "\n")
	}
	input := sb.String()
	desc = fmt.Sprintf("types=%v dst=%v src=%v sep=%q input=%q", cs.types, dst, cs.srcCols, string(cs.sep), input)
	// reference tokenisation: what the records of this input are (CSV grammar), with the same reader settings
	ref := csv.NewReader(strings.NewReader(input))
	ref.FieldsPerRecord = -1
	ref.Comma = cs.sep
	type expect struct {
		ok   bool
		vals []any // per destination column of the table (nil = NULL)
	}
	var exp []expect
	maxIdx := 0
	for _, s := range cs.srcCols {
		if s > maxIdx {
			maxIdx = s
		}
	}
	for {
		rec, err := ref.Read()
		if err == io.EOF {
			break
		}
		if err != nil {
			exp = append(exp, expect{ok: false})
			if _, isParse := err.(*csv.ParseError); isParse {
				continue
			}
			break
		}
		if maxIdx >= len(rec) {
			exp = append(exp, expect{ok: false})
			continue
		}
		e := expect{ok: true, vals: make([]any, len(cs.types))}
		size := len(cs.types) // one NULL-marker byte per column
		for mi, di := range cs.dstCols {
			v, ok := c19Convert(cs.types[di], rec[cs.srcCols[mi]])
			if !ok {
				e.ok = false
				break
			}
			e.vals[di] = v
			switch x := v.(type) {
			case string:
				size += 4 + len(x)
			case int64:
				size += map[string]int{"int": 4, "bigint": 8}[cs.types[di]]
			case bool:
				size++
			}
		}
		if size > 400 {
			e.ok = false // the row does not fit a cell: refused by the INSERT, reported as an error
		}
		exp = append(exp, e)
	}
	// run the import
	var nOk, nErr int
	var perr any
	func() {
		defer func() {
			if x := recover(); x != nil {
				perr = fmt.Sprintf("%v\n%s", x, debug.Stack())
			}
		}()
		chOk, chErr := doBatchInsert(rm, cfg, strings.NewReader(input))
		for chOk != nil || chErr != nil {
			select {
			case _, ok := <-chOk:
				if ok {
					nOk++
				} else {
					chOk = nil
				}
			case _, ok := <-chErr:
				if ok {
					nErr++
				} else {
					chErr = nil
				}
			}
		}
	}()
	if perr != nil {
		return fmt.Sprintf("import panicked: %v", perr), true, desc
	}
	wantOk, wantErr := 0, 0
	var wantRows [][]any
	for _, e := range exp {
		if e.ok {
			wantOk++
			wantRows = append(wantRows, e.vals)
		} else {
			wantErr++
		}
	}
	nontrivial = wantOk > 0 && wantErr > 0
	if nOk != wantOk || nErr != wantErr {
		return fmt.Sprintf("import reported %d stored + %d errors, the input has %d acceptable + %d unacceptable records", nOk, nErr, wantOk, wantErr), nontrivial, desc
	}
	rows, _, err := engine.EvaluateSelect(parseSelectAll(table), rm)
	if err != nil {
		return "SELECT after import: " + err.Error(), nontrivial, desc
	}
	if len(rows) != len(wantRows) {
		return fmt.Sprintf("table holds %d rows, %d records were acceptable", len(rows), len(wantRows)), nontrivial, desc
	}
	for i, r := range rows {
		for j := range cs.types {
			if r.Vals[j] != wantRows[i][j] {
				return fmt.Sprintf("row %d column c%d (%s) holds %#v, the record says %#v", i, j, cs.types[j], r.Vals[j], wantRows[i][j]), nontrivial, desc
			}
		}
	}
	return "", nontrivial, desc
}

// c19ProcessEnd: the importer as a process. main() opens the database (with or without log fsync), imports, and
// exits without closing anything; the rows it acknowledged are read by a later process. Here: OpenRelation the way
// main does, doBatchInsert, then every descriptor is dropped without a flush or a close call (process exit), the
// start-up recovery runs, and a new session reads the table. No flush timer fires in between (manual clock), so the
// acknowledged rows live in the log only.
func c19ProcessEnd(rep *lib.Report) {
	for _, fsync := range []bool{true, false} {
		for _, nrec := range []int{1, 2, 3, 40, 300, 1500} { // (1500 rows: the table's root interior page fills and splits)
			desc := fmt.Sprintf("import of %d records with log fsync %v, process ends without closing the database, next process reads the table", nrec, fsync)
			problem := func() (problem string) {
				defer func() {
					if x := recover(); x != nil {
						if he, ok := x.(lib.HarnessError); ok {
							panic(he)
						}
						problem = fmt.Sprintf("panic: %v", x)
					}
				}()
				d := c19NewDB()
				defer d.destroy()
				if err := d.sess.ExecQuery("CREATE TABLE imp (c0 int, c1 varchar(255))"); err != nil {
					panic(lib.HarnessError{Msg: "CREATE TABLE: " + err.Error()})
				}
				rs0 := d.sess.RelationService
				if err := d.sess.Close(); err != nil {
					panic(lib.HarnessError{Msg: "Session.Close: " + err.Error()})
				}
				storage.VerifMarkClosed(rs0)
				rm, err := storage.OpenRelation("d", fsync)
				if err != nil {
					return "OpenRelation: " + err.Error()
				}
				types, err := colDataTypes(rm, "imp", []string{"c0", "c1"})
				if err != nil {
					return "colDataTypes: " + err.Error()
				}
				cfg := importCfg{colTypes: types, db: "d", dstCols: []string{"c0", "c1"}, separator: ',', srcCols: []int{0, 1}, table: "imp"}
				var sb strings.Builder
				var want []string
				for i := 0; i < nrec; i++ {
					if i%7 == 5 {
						sb.WriteString("notanumber,x\n") // a record that is reported as an error
						continue
					}
					fmt.Fprintf(&sb, "%d,v%d\n", i, i)
					want = append(want, fmt.Sprintf("%d|v%d", i, i))
				}
				chOk, chErr := doBatchInsert(rm, cfg, strings.NewReader(sb.String()))
				acks, errs := 0, 0
				for chOk != nil || chErr != nil {
					select {
					case _, ok := <-chOk:
						if ok {
							acks++
						} else {
							chOk = nil
						}
					case _, ok := <-chErr:
						if ok {
							errs++
						} else {
							chErr = nil
						}
					}
				}
				if acks != len(want) {
					return fmt.Sprintf("%d records acknowledged, %d are acceptable", acks, len(want))
				}
				// the process ends
				storage.VerifAbandon(rm)
				storage.VerifForgetStores()
				// the next process
				if err := storage.InitStorage(); err != nil {
					return "start-up recovery in the next process: " + err.Error()
				}
				storage.VerifForgetStores()
				d.sess = &engine.Session{}
				if err := d.sess.ExecQuery("USE d"); err != nil {
					return "USE d in the next process: " + err.Error()
				}
				rows, _, err := engine.EvaluateSelect(parseSelectAll("imp"), d.sess.RelationService)
				if err != nil {
					return "SELECT in the next process: " + err.Error()
				}
				var got []string
				for _, r := range rows {
					got = append(got, fmt.Sprintf("%v|%v", r.Vals[0], r.Vals[1]))
				}
				if strings.Join(got, ",") != strings.Join(want, ",") {
					return fmt.Sprintf("%d records were acknowledged; the next process finds %d rows (%s ...)", acks, len(got), clipStr(strings.Join(got, ","), 120))
				}
				return ""
			}()
			rep.AddCase(true, lib.HashString(desc), lib.HashString(problem))
			if problem != "" {
				rep.AddFailure(&lib.Failure{Kind: "csv-import", Detail: "[process-end] " + desc + ": " + problem, Trace: []string{"process-end", desc}})
			}
		}
	}
	rep.Bounds["process end"] = "imports of 1, 2, 3, 40, 300, 1500 records with and without log fsync; the importer exits without closing the database (as main does), the next process recovers and reads the table"
}

func clipStr(s string, n int) string {
	if len(s) > n {
		return s[:n]
	}
	return s
}

func runC19(env *lib.Env, rep *lib.Report) {
	typesAll := []string{"int", "bigint", "varchar", "boolean"}
	var schemas [][]string
	for _, a := range typesAll {
		schemas = append(schemas, []string{a})
		for _, b := range typesAll {
			schemas = append(schemas, []string{a, b})
		}
	}
	for _, s := range [][]string{{"int", "varchar", "boolean"}, {"bigint", "boolean", "varchar"}, {"varchar", "int", "bigint"}, {"boolean", "bigint", "int"}, {"varchar", "varchar", "int"}} {
		schemas = append(schemas, s)
	}
	// stream length: single-column schemas one longer than the others. The thorough tier first covers the
	// quick tier's bounds completely (phase 1) and then the longer streams until its soft deadline.
	maxRecs := 3
	phase := 1
	rep.Bounds["schemas"] = fmt.Sprintf("%d (all 1- and 2-column schemas over the four types, five 3-column schemas)", len(schemas))
	rep.Bounds["record streams"] = fmt.Sprintf("all sequences of <= %d records (one fewer for schemas of several columns; the thorough tier then continues with one more record until its deadline) over the per-schema record alphabet (one record per field value of each column with the others valid; short record; bare quote; unterminated quote as last record) with the identity mapping and comma; plus every injective mapping x separator {, ; tab § € |} with representative streams, configured through the command line flags and makeConfig", maxRecs)
	known := env.OpenKnown()
	fails := map[string]int{}
	var db *c19DB
	n := 0
	expired := false
	mine := 0
	run := func(cs c19Case, fam string) {
		n++
		if n%env.NShards != env.Shard || expired {
			return
		}
		mine++
		if phase == 2 && mine%64 == 0 && env.Expired() {
			expired = true
			rep.Exhaustive = false
			rep.Notes = append(rep.Notes, "soft deadline reached inside phase 2 (streams of up to 4 records); phase 1 (the quick tier's bounds) was covered completely")
			return
		}
		if db == nil || db.tables >= 40 {
			if db != nil {
				db.destroy()
			}
			db = c19NewDB()
		}
		if env.Journal != "" {
			// a panic inside the import goroutine kills the process: leave a note saying which case was running
			os.WriteFile(env.Journal, []byte(fmt.Sprintf("%s: types=%v dst=%v src=%v sep=%q records=%v", fam, cs.types, cs.dstCols, cs.srcCols, string(cs.sep), cs.records)), 0644)
		}
		problem, nontrivial, desc := db.runCase(cs)
		rep.AddCase(nontrivial, lib.HashString(desc), lib.HashString(problem))
		if problem == "" {
			if nontrivial && rep.WantSample() {
				rep.AddSample(map[string]any{"family": fam, "case": desc})
			}
			return
		}
		f := &lib.Failure{Kind: "csv-import", Detail: fmt.Sprintf("[%s] %s\n %s", fam, desc, problem), Trace: []string{fam, desc}}
		if _, open := known["D20-bigint-imported-as-null"]; open {
			for _, di := range cs.dstCols {
				if cs.types[di] == "bigint" {
					f.Known = "D20-bigint-imported-as-null"
				}
			}
		}
		key := fam + "|" + strings.SplitN(problem, " ", 4)[0] + f.Known
		fails[key]++
		if f.Known != "" || fails[key] <= 3 {
			rep.AddFailure(f)
		} else {
			rep.FailCount++
		}
		// the database may be inconsistent after a failure: start a new one
		db.destroy()
		db = nil
	}
	enumerate := func() {
		for _, types := range schemas {
			// record alphabet for this schema with CSV fields 0..len-1 feeding columns 0..len-1
			valid := make([]string, len(types))
			for i, t := range types {
				valid[i] = c19Fields(t)[1].text
			}
			var alphabet []c19Record
			alphabet = append(alphabet, c19Record{fields: append([]string{}, valid...)})
			for i, t := range types {
				for _, f := range c19Fields(t) {
					r := c19Record{fields: append([]string{}, valid...)}
					r.fields[i] = f.text
					alphabet = append(alphabet, r)
				}
			}
			if len(types) > 1 {
				alphabet = append(alphabet, c19Record{fields: append([]string{}, valid...), defect: "short"})
			}
			alphabet = append(alphabet, c19Record{fields: append([]string{}, valid...), defect: "barequote"})
			// records that look like blank lines: one quoted empty field, one field of blanks (a valid value for a single
			// varchar column, a short record for anything wider - never something to skip silently)
			alphabet = append(alphabet, c19Record{fields: append([]string{}, valid...), defect: "quoted-empty"}, c19Record{fields: append([]string{}, valid...), defect: "blanks-only"})
			alphabet = append(alphabet, c19Record{fields: append([]string{}, valid...), defect: "quote-then-text"})
			unterminated := c19Record{fields: append([]string{}, valid...), defect: "unterminated"}
			ident := make([]int, len(types))
			for i := range ident {
				ident[i] = i
			}
			// (a) all streams of <= maxRecs records (the unterminated quote only as the last record)
			var rec func(cur []c19Record)
			rec = func(cur []c19Record) {
				if len(cur) > 0 {
					run(c19Case{types: types, dstCols: ident, srcCols: ident, sep: ',', records: cur}, "streams")
					run(c19Case{types: types, dstCols: ident, srcCols: ident, sep: ',', records: append(append([]c19Record{}, cur...), unterminated)}, "streams+unterminated")
				}
				if len(cur) == maxRecs || (len(types) > 1 && len(cur) == maxRecs-1) || expired {
					return
				}
				for _, a := range alphabet {
					rec(append(append([]c19Record{}, cur...), a))
				}
			}
			rec(nil)
			// (b) every injective mapping of CSV fields {0,1,2} to a non-empty ordered subset of the columns x separators
			reprs := [][]c19Record{{alphabet[0]}, {alphabet[1], alphabet[0]}, {alphabet[len(alphabet)-1], alphabet[0], alphabet[2%len(alphabet)]}}
			// a record with too few fields between valid ones (reporting it must not disturb the mapping of the others)
			short := c19Record{fields: append([]string{}, valid...), defect: "short"}
			reprs = append(reprs, []c19Record{short, alphabet[0]}, []c19Record{alphabet[0], short, alphabet[1], alphabet[0]})
			var dsts [][]int
			var sub func(cur []int)
			sub = func(cur []int) {
				if len(cur) > 0 {
					dsts = append(dsts, append([]int{}, cur...))
				}
				for i := range types {
					used := false
					for _, c := range cur {
						if c == i {
							used = true
						}
					}
					if !used {
						sub(append(cur, i))
					}
				}
			}
			sub(nil)
			for _, dst := range dsts {
				var srcs [][]int
				var inj func(cur []int)
				inj = func(cur []int) {
					if len(cur) == len(dst) {
						srcs = append(srcs, append([]int{}, cur...))
						return
					}
					for s := 0; s < 3; s++ {
						used := false
						for _, c := range cur {
							if c == s {
								used = true
							}
						}
						if !used {
							inj(append(cur, s))
						}
					}
				}
				inj(nil)
				// the same CSV field may feed several columns: all maps of the destination positions to fields 0..2 where
				// at least two positions share a field, with a value every mapped type accepts ("TRUE" for boolean and
				// varchar, "1" once a number column takes part)
				if len(dst) >= 2 {
					var rec2 func(cur []int)
					rec2 = func(cur []int) {
						if len(cur) == len(dst) {
							seen := map[int]bool{}
							dup := false
							for _, x := range cur {
								if seen[x] {
									dup = true
								}
								seen[x] = true
							}
							if !dup {
								return
							}
							shared := "TRUE"
							for _, di := range dst {
								if types[di] == "int" || types[di] == "bigint" {
									shared = "1"
								}
							}
							for _, sep := range []rune{',', '\t'} {
								for _, text := range []string{shared, "False", "t"} {
									if shared == "1" && text != shared {
										continue
									}
									w1 := c19Record{fields: []string{text, text, text}}
									w2 := c19Record{fields: []string{"zz", "zz", "zz"}, defect: "short"}
									run(c19Case{types: types, dstCols: dst, srcCols: append([]int{}, cur...), sep: sep, records: []c19Record{w1, w2, w1}, viaFlags: true}, "mappings/shared-field")
								}
							}
							return
						}
						for s := 0; s < 3; s++ {
							rec2(append(cur, s))
						}
					}
					rec2(nil)
				}
				for _, src := range srcs {
					for _, sep := range []rune{',', ';', '\t', '§', '€', '|'} {
						for _, rs := range reprs {
							// widen the records to three CSV fields so that every source index exists; field s feeds dst column
							var wide []c19Record
							for _, r := range rs {
								w := c19Record{fields: []string{"zz", "zz", "zz"}, defect: r.defect}
								for mi, di := range dst {
									w.fields[src[mi]] = r.fields[di]
								}
								wide = append(wide, w)
							}
							run(c19Case{types: types, dstCols: dst, srcCols: src, sep: sep, records: wide, viaFlags: true}, "mappings")
						}
					}
				}
			}
		}
	}
	enumerate()
	if env.Thorough() && env.Replay == "" {
		rep.Bounds["phase 1 (bounds of the quick tier, explored first)"] = map[string]any{"imports enumerated (all shards)": n, "completed": true}
		phase, maxRecs = 2, 4
		enumerate()
	}
	if db != nil {
		db.destroy()
	}
	if env.Shard == 0 && env.Replay == "" {
		c19ProcessEnd(rep)
	}
	rep.Bounds["imports enumerated (all shards)"] = n
}
