package storage

import (
	"testing"

	"verif/lib"
)

// TestVerif is the worker entry point for every check whose harness lives in
// package storage. It does nothing unless the driver set VERIF_CHECK.
func TestVerif(t *testing.T) {
	env := lib.GetEnv()
	if env.Check == "" {
		t.Skip("not run by vcheck")
	}
	lib.Silence()
	rep := lib.NewReport(env)
	lib.Main(env, rep, func() {
		switch env.Check {
		case "C15":
			runC15(env, rep)
		case "C12":
			runC12(env, rep)
		default:
			panic(lib.HarnessError{Msg: "package storage has no harness for " + env.Check})
		}
	})
}
