//go:build verif

package storage

// Verification shim (comes from /verif, not from the repository): exports what
// engine-level harnesses need from this package — capacity overrides, a manual
// flush clock, write events, fetch fuel, crash ("abandon") and a B+ tree walker.

import (
	"bytes"
	"fmt"
	"os"
	"sort"
	"sync"
	"time"
)

// VerifWrite is one write-like event on a database file.
type VerifWrite struct {
	Kind  string // page | header | wal | walsync | walend
	Path  string // file name as opened (relative to the cwd at open time)
	Off   uint64
	Data  []byte
	Store *VerifStore // nil for wal events
}

// VerifStore tracks one fileStore created while the shim is active.
type VerifStore struct {
	fs      *fileStore
	ch      chan time.Time
	done    chan error
	Path    string
	Flusher bool // has a flusher goroutine (autoFlushCache)
	Dead    bool // goroutine stopped / files closed
	Seq     int
	goid    int64 // goroutine id of the flusher
}

var verifMu sync.Mutex // guards verifStores (flusher goroutines register themselves concurrently)

// VerifFuelExhausted is the panic value raised when an operation fetches more
// pages than its fuel allows (cycle in the page graph, unbounded recursion).
type VerifFuelExhausted struct{}

var (
	verifLeafCap, verifInternalCap, verifCacheCap int
	verifManual                                   bool
	verifStores                                   []*VerifStore
	verifOnWrite                                  func(VerifWrite)
	verifFuel                                     int64 = -1
	verifFetches                                  int64
)

// VerifReset restores the shim's defaults: real capacities, real clock, no callbacks.
func VerifReset() {
	verifLeafCap, verifInternalCap, verifCacheCap = 0, 0, 0
	verifManual = false
	verifStores = nil
	verifOnWrite = nil
	verifFuel = -1
	vhIsFull, vhStoreCreated, vhTickerCreated, vhFlusherStart, vhTickDone = nil, nil, nil, nil, nil
	vhPoint, vhPageWrite, vhHeaderWrite, vhFetch, vhMarkDirty = nil, nil, nil, nil, nil
	vhWalWrite, vhWalSync, vhWalFlushEnd = nil, nil, nil
}

// VerifInstall activates store tracking, write events, fuel and (optionally)
// the manual clock and capacity overrides. 0 means "the real value".
func VerifInstall(manualClock bool, leafCap, internalCap, cacheCap int) {
	VerifReset()
	verifManual = manualClock
	verifLeafCap, verifInternalCap, verifCacheCap = leafCap, internalCap, cacheCap
	if leafCap > 0 || internalCap > 0 {
		vhIsFull = func(n *btreeNode) (bool, bool) {
			if n.isLeaf && verifLeafCap > 0 {
				return len(n.offsets) >= verifLeafCap, true
			}
			if !n.isLeaf && verifInternalCap > 0 {
				return len(n.offsets) >= verifInternalCap, true
			}
			return false, false
		}
	}
	vhStoreCreated = func(f *fileStore) {
		if verifCacheCap > 0 {
			f.cache = NewLRU(verifCacheCap)
		}
		verifMu.Lock()
		verifStores = append(verifStores, &VerifStore{fs: f, Path: f.file.Name(), Seq: len(verifStores)})
		verifMu.Unlock()
	}
	vhFlusherStart = func(f *fileStore) {
		g := verifGoid()
		if s := verifStoreOf(f); s != nil {
			verifMu.Lock()
			s.goid = g
			verifMu.Unlock()
		}
	}
	vhTickerCreated = func(f *fileStore) {
		s := verifStoreOf(f)
		s.Flusher = true
		if verifManual {
			f.ticker.Stop()
			s.ch = make(chan time.Time)
			s.done = make(chan error, 1)
			f.ticker = &time.Ticker{C: s.ch}
		}
	}
	vhTickDone = func(f *fileStore, err error) {
		if s := verifStoreOf(f); s != nil && s.done != nil {
			s.done <- err
		}
	}
	vhPageWrite = func(f *fileStore, off uint64, data []byte) {
		if verifOnWrite != nil {
			verifOnWrite(VerifWrite{Kind: "page", Path: f.file.Name(), Off: off, Data: append([]byte{}, data...), Store: verifStoreOf(f)})
		}
	}
	vhHeaderWrite = func(f *fileStore, data []byte) {
		if verifOnWrite != nil {
			verifOnWrite(VerifWrite{Kind: "header", Path: f.file.Name(), Data: append([]byte{}, data...), Store: verifStoreOf(f)})
		}
	}
	walPath := func(w *wal) string {
		if n, ok := w.reader.(interface{ Name() string }); ok {
			return n.Name()
		}
		return "?"
	}
	vhWalWrite = func(w *wal, data []byte) {
		if verifOnWrite != nil {
			verifOnWrite(VerifWrite{Kind: "wal", Path: walPath(w), Data: append([]byte{}, data...)})
		}
	}
	vhWalSync = func(w *wal) {
		if verifOnWrite != nil {
			verifOnWrite(VerifWrite{Kind: "walsync", Path: walPath(w)})
		}
	}
	vhWalFlushEnd = func(w *wal, n int) {
		if verifOnWrite != nil {
			verifOnWrite(VerifWrite{Kind: "walend", Path: walPath(w), Off: uint64(n)})
		}
	}
	vhFetch = func(f *fileStore, off uint64) {
		verifFetches++
		if verifFuel >= 0 {
			verifFuel--
			if verifFuel < 0 {
				verifFuel = -1
				panic(VerifFuelExhausted{})
			}
		}
	}
}

func verifStoreOf(f *fileStore) *VerifStore {
	verifMu.Lock()
	defer verifMu.Unlock()
	for i := len(verifStores) - 1; i >= 0; i-- {
		if verifStores[i].fs == f {
			return verifStores[i]
		}
	}
	return nil
}

// VerifWindow watches, without a scheduler, the statements run between Begin and End on the calling goroutine: a
// page or the header written to the data file after the statement's first change (a page stamped) and before the
// completion of its log append is reported. (CREATE TABLE ends in a flush of its own and is not to be bracketed.)
type VerifWindow struct {
	changed, logged, active bool
	stmt                    string
	problems                []string
	prevDirty               func(n *btreeNode, lsn uint64)
	prevPage                func(f *fileStore, off uint64, data []byte)
	prevHeader              func(f *fileStore, data []byte)
	prevEnd                 func(w *wal, n int)
}

func VerifNewWindow() *VerifWindow {
	v := &VerifWindow{prevDirty: vhMarkDirty, prevPage: vhPageWrite, prevHeader: vhHeaderWrite, prevEnd: vhWalFlushEnd}
	vhMarkDirty = func(n *btreeNode, lsn uint64) {
		if v.prevDirty != nil {
			v.prevDirty(n, lsn)
		}
		if v.active {
			v.changed = true
		}
	}
	note := func(what string) {
		if v.active && v.changed && !v.logged && len(v.problems) < 5 {
			v.problems = append(v.problems, fmt.Sprintf("%s written to the data file between the first change of %q and the completion of its log append", what, v.stmt))
		}
	}
	vhPageWrite = func(f *fileStore, off uint64, data []byte) {
		note(fmt.Sprintf("page %d", off))
		if v.prevPage != nil {
			v.prevPage(f, off, data)
		}
	}
	vhHeaderWrite = func(f *fileStore, data []byte) {
		note("file header")
		if v.prevHeader != nil {
			v.prevHeader(f, data)
		}
	}
	vhWalFlushEnd = func(w *wal, n int) {
		if v.active {
			v.logged = true
		}
		if v.prevEnd != nil {
			v.prevEnd(w, n)
		}
	}
	return v
}

func (v *VerifWindow) Begin(stmt string) {
	v.active, v.changed, v.logged, v.stmt = true, false, false, stmt
}

// End closes the statement's window and returns what was seen inside it so far.
func (v *VerifWindow) End() []string {
	v.active = false
	p := v.problems
	v.problems = nil
	return p
}

// Remove uninstalls the monitor.
func (v *VerifWindow) Remove() {
	vhMarkDirty, vhPageWrite, vhHeaderWrite, vhWalFlushEnd = v.prevDirty, v.prevPage, v.prevHeader, v.prevEnd
}

// VerifSetLastKey puts the store's row id counter at v (a state that only billions of rows reach otherwise).
func VerifSetLastKey(rs *RelationService, v uint32) { rs.fs.lastKey = v }

// VerifSetCacheCap changes the page-cache capacity given to stores created from now on (0 = the real value).
func VerifSetCacheCap(n int) { verifCacheCap = n }

// VerifOnWrite sets the write-event callback (nil to clear).
func VerifOnWrite(f func(VerifWrite)) { verifOnWrite = f }

// VerifSetFuel allows the next operations n page fetches in total (-1 = unlimited).
func VerifSetFuel(n int64) { verifFuel = n }

// VerifFetchCount returns the number of page fetches so far.
func VerifFetchCount() int64 { return verifFetches }

// VerifStores lists every store created since VerifInstall.
func VerifStores() []*VerifStore {
	verifMu.Lock()
	defer verifMu.Unlock()
	return append([]*VerifStore{}, verifStores...)
}

// VerifForgetStores drops the tracking list (between executions).
func VerifForgetStores() {
	verifMu.Lock()
	verifStores = nil
	verifMu.Unlock()
}

// VerifStoreOf returns the tracked store behind a relation service.
func VerifStoreOf(rs *RelationService) *VerifStore {
	if rs == nil {
		return nil
	}
	return verifStoreOf(rs.fs)
}

// Tick makes the store's flusher goroutine run one timer flush (manual clock)
// and waits for it to finish.
func (s *VerifStore) Tick() error {
	if s.ch == nil || s.Dead {
		return fmt.Errorf("store %s has no controllable flusher", s.Path)
	}
	select {
	case s.ch <- time.Time{}:
	case <-time.After(60 * time.Second):
		panic("verif: flusher goroutine did not take the tick within 60s")
	}
	select {
	case err := <-s.done:
		return err
	case <-time.After(60 * time.Second):
		panic("verif: flusher goroutine did not finish the flush within 60s")
	}
}

// TickInside arms the manual clock so that the flush timer fires while the next statement is between its page
// changes and its log append: at the statement's first write call on the log the tick is delivered, and the statement
// goes on as soon as the flusher either asks for the exclusive lock (it then has to wait for the statement to end) or
// has completed its flush (an engine whose flush does not wait for statements). onFlushStart runs on the flusher
// goroutine when the flush begins (lock taken, nothing written yet). The returned function is called after the
// statement has returned: it waits for the flush to end. fired: the statement did write to the log, so the timer was
// fired; inside: the flush ran to its end while the statement was still at its first log write.
func (s *VerifStore) TickInside(onFlushStart func()) (finish func() (fired, inside bool, err error)) {
	if s.ch == nil || s.Dead {
		panic("verif: TickInside on a store without a controllable flusher")
	}
	prevWal, prevPoint := vhWalWrite, vhPoint
	lockAsked := make(chan struct{}, 4)
	var fired, inside, gotDone bool
	var doneErr error
	session := verifGoid()
	vhPoint = func(f *fileStore, kind string) {
		if prevPoint != nil {
			prevPoint(f, kind)
		}
		if f != s.fs || verifGoid() == session {
			return
		}
		switch kind {
		case "lock":
			select {
			case lockAsked <- struct{}{}:
			default:
			}
		case "flushStart":
			if onFlushStart != nil {
				onFlushStart()
			}
		}
	}
	vhWalWrite = func(w *wal, data []byte) {
		if !fired && verifGoid() == session {
			fired = true
			select {
			case s.ch <- time.Time{}:
			case <-time.After(60 * time.Second):
				panic("verif: flusher goroutine did not take the tick within 60s")
			}
			select {
			case <-lockAsked:
			case doneErr = <-s.done:
				gotDone, inside = true, true
			case <-time.After(60 * time.Second):
				panic("verif: flusher neither asked for the lock nor finished within 60s")
			}
		}
		if prevWal != nil {
			prevWal(w, data)
		}
	}
	return func() (bool, bool, error) {
		if fired && !gotDone {
			select {
			case doneErr = <-s.done:
			case <-time.After(60 * time.Second):
				panic("verif: flusher goroutine did not finish the flush within 60s")
			}
		}
		vhWalWrite, vhPoint = prevWal, prevPoint
		return fired, inside, doneErr
	}
}

// Alive reports whether the store's file is still open (close() stops the
// flusher goroutine before closing the file).
func (s *VerifStore) Alive() bool {
	_, err := s.fs.file.Stat()
	return err == nil
}

// Flush runs flushPages on the calling goroutine.
func (s *VerifStore) Flush() error { return s.fs.flushPages() }

// DirtyPages returns the offsets of the dirty pages in the cache, ascending.
func (s *VerifStore) DirtyPages() []uint64 {
	var out []uint64
	for _, v := range s.fs.cache.cache {
		n := v.Value.(*cacheEntry).val
		if n.isDirty() {
			out = append(out, n.getFileOffset())
		}
	}
	sort.Slice(out, func(i, j int) bool { return out[i] < out[j] })
	return out
}

// Header returns the in-memory header fields.
func (s *VerifStore) Header() (lastKey uint32, pageTableRoot, nextFree, nextLSN uint64) {
	return s.fs.lastKey, s.fs.pageTableRoot, s.fs.nextFreeOffset, s.fs._nextLSN
}

// CacheLen returns the number of resident pages and the capacity.
func (s *VerifStore) CacheLen() (int, int) { return len(s.fs.cache.cache), s.fs.cache.maxNodes }

// VerifAbandon simulates the death of the process for one open database: the
// flusher goroutine is stopped and the descriptors are closed without flushing.
func VerifAbandon(rs *RelationService) {
	if rs == nil {
		return
	}
	s := verifStoreOf(rs.fs)
	if s != nil && s.Dead {
		return
	}
	if _, err := rs.fs.file.Stat(); err != nil {
		// already closed by the code under test (close() stops the goroutine first)
		if s != nil {
			s.Dead = true
		}
		return
	}
	if rs.fs.autoFlushCache {
		rs.fs.ticker.Stop()
		rs.fs.tickerDone <- true
	}
	rs.fs.file.Close()
	// (a dying process does not run the log's close method: whatever that would still write out is lost)
	rs.wal.reader.Close()
	if s != nil {
		s.Dead = true
	}
}

// AbandonStore is VerifAbandon for a store without its relation service (the
// log descriptor of that service stays open until the process ends).
func (s *VerifStore) AbandonStore() {
	if s.Dead {
		return
	}
	if _, err := s.fs.file.Stat(); err != nil {
		s.Dead = true
		return
	}
	if s.fs.autoFlushCache {
		s.fs.ticker.Stop()
		s.fs.tickerDone <- true
	}
	s.fs.file.Close()
	s.Dead = true
}

// VerifLockFree reports whether nobody holds the store lock (used between
// statements, when no goroutine of the engine is running: a lock still held
// then was leaked by the statement that just returned).
// VerifWatchReadLocks installs a monitor on the store-lock operations of the calling goroutine's statements
// (single-threaded use, no scheduler): it returns a function that reports how often the shared lock was
// requested while it was already held since the last call. Go's RWMutex forbids that: the second request
// blocks for ever as soon as a writer (the flush timer) asks for the lock in between.
func VerifWatchReadLocks() (recursive func() int) {
	depth, hits := 0, 0
	vhPoint = func(f *fileStore, kind string) {
		switch kind {
		case "rlock":
			if depth > 0 {
				hits++
			}
			depth++
		case "runlock":
			if depth > 0 {
				depth--
			}
		}
	}
	return func() int {
		h := hits
		hits, depth = 0, 0
		return h
	}
}

func VerifLockFree(rs *RelationService) bool {
	if rs == nil {
		return true
	}
	if !rs.fs.mtx.TryLock() {
		return false
	}
	rs.fs.mtx.Unlock()
	return true
}

// VerifMarkClosed tells the shim that the relation service was closed by the
// code under test (its goroutine is gone).
func VerifMarkClosed(rs *RelationService) {
	if s := VerifStoreOf(rs); s != nil {
		s.Dead = true
	}
}

// ---------------------------------------------------------------------------
// B+ tree walker (C11)

// VerifTreeStats summarises one walk.
type VerifTreeStats struct {
	Trees     int
	Pages     int
	MaxDepth  int
	Leaves    int
	Internals int
	LiveKeys  int
	Tombs     int
	Shape     string // canonical shape string (for distinct counting)
}

type verifWalker struct {
	fs       *fileStore
	visited  map[uint64]string
	problems []string
	stats    VerifTreeStats
	shape    bytes.Buffer
}

func (w *verifWalker) bad(format string, a ...any) {
	if len(w.problems) < 8 {
		w.problems = append(w.problems, fmt.Sprintf(format, a...))
	}
}

func (w *verifWalker) capOf(n *btreeNode) int {
	if n.isLeaf {
		if verifLeafCap > 0 {
			return verifLeafCap
		}
		return maxLeafNodeCells
	}
	if verifInternalCap > 0 {
		return verifInternalCap
	}
	return maxInternalNodeCells
}

type verifLeafInfo struct {
	off  uint64
	node *btreeNode
}

// walk checks the subtree at off whose keys must lie in [lo, hi) (hasLo/hasHi
// say which bounds exist) and returns the depth of its leaves.
func (w *verifWalker) walk(tree string, off uint64, lo, hi uint32, hasLo, hasHi bool, leaves *[]verifLeafInfo, depth int) int {
	if prev, dup := w.visited[off]; dup {
		w.bad("page %d reached twice (tree %s, first seen in tree %s)", off, tree, prev)
		return -1
	}
	w.visited[off] = tree
	if depth > 64 {
		w.bad("tree %s deeper than 64 levels", tree)
		return -1
	}
	n, err := w.fs.fetch(off)
	if err != nil {
		w.bad("tree %s: fetch(%d): %v", tree, off, err)
		return -1
	}
	if n.fileOffset != off {
		w.bad("tree %s: page at %d says its offset is %d", tree, off, n.fileOffset)
	}
	w.stats.Pages++
	if len(n.offsets) >= w.capOf(n) {
		w.bad("tree %s: page %d holds %d cells, capacity at rest is %d", tree, off, len(n.offsets), w.capOf(n)-1)
	}
	var prevKey uint32
	for i, o := range n.offsets {
		var k uint32
		if n.isLeaf {
			if int(o) >= len(n.leafCells) || n.leafCells[o] == nil {
				w.bad("tree %s: leaf %d offset array entry %d out of range", tree, off, i)
				return -1
			}
			k = n.leafCells[o].key
		} else {
			if int(o) >= len(n.internalCells) || n.internalCells[o] == nil {
				w.bad("tree %s: internal %d offset array entry %d out of range", tree, off, i)
				return -1
			}
			k = n.internalCells[o].key
		}
		if i > 0 && k <= prevKey {
			w.bad("tree %s: page %d keys not strictly ascending (%d after %d)", tree, off, k, prevKey)
		}
		if hasLo && k < lo {
			w.bad("tree %s: page %d key %d below its parent's lower separator %d", tree, off, k, lo)
		}
		if hasHi && k >= hi {
			w.bad("tree %s: page %d key %d not below its parent's upper separator %d", tree, off, k, hi)
		}
		prevKey = k
	}
	if n.isLeaf {
		w.stats.Leaves++
		fmt.Fprintf(&w.shape, "L%d ", len(n.offsets))
		for _, o := range n.offsets {
			if n.leafCells[o].deleted {
				w.stats.Tombs++
			} else {
				w.stats.LiveKeys++
			}
		}
		*leaves = append(*leaves, verifLeafInfo{off, n})
		return depth
	}
	w.stats.Internals++
	fmt.Fprintf(&w.shape, "I%d( ", len(n.offsets))
	if len(n.offsets) == 0 {
		w.bad("tree %s: internal page %d has no separator", tree, off)
	}
	leafDepth := -2
	clo, hasCLo := lo, hasLo
	for i := 0; i <= len(n.offsets); i++ {
		var child uint64
		chi, hasCHi := hi, hasHi
		if i < len(n.offsets) {
			c := n.internalCells[n.offsets[i]]
			child, chi, hasCHi = c.fileOffset, c.key, true
		} else {
			child = n.rightOffset
		}
		d := w.walk(tree, child, clo, chi, hasCLo, hasCHi, leaves, depth+1)
		if d >= 0 {
			if leafDepth == -2 {
				leafDepth = d
			} else if d != leafDepth {
				w.bad("tree %s: leaves at different depths under page %d (%d vs %d)", tree, off, leafDepth, d)
			}
		}
		if i < len(n.offsets) {
			clo, hasCLo = n.internalCells[n.offsets[i]].key, true
		}
	}
	w.shape.WriteString(") ")
	return leafDepth
}

func (w *verifWalker) tree(name string, root uint64) {
	var leaves []verifLeafInfo
	w.stats.Trees++
	fmt.Fprintf(&w.shape, "[%s: ", name)
	d := w.walk(name, root, 0, 0, false, false, &leaves, 1)
	w.shape.WriteString("] ")
	if d > w.stats.MaxDepth {
		w.stats.MaxDepth = d
	}
	if len(leaves) == 0 {
		return
	}
	// keys ascending across leaves
	var last uint32
	have := false
	for _, l := range leaves {
		for _, o := range l.node.offsets {
			k := l.node.leafCells[o].key
			if have && k <= last {
				w.bad("tree %s: key %d in leaf %d not above the previous leaf's keys (%d)", name, k, l.off, last)
			}
			last, have = k, true
		}
	}
	// forward chain = leaves in tree order
	cur := leaves[0].node
	if cur.hasLSib {
		w.bad("tree %s: leftmost leaf %d has a left sibling link (%d)", name, leaves[0].off, cur.lSibFileOffset)
	}
	for i := 0; i < len(leaves); i++ {
		if cur.fileOffset != leaves[i].off {
			w.bad("tree %s: forward leaf chain visits page %d where tree order has %d (position %d)", name, cur.fileOffset, leaves[i].off, i)
			break
		}
		if i == len(leaves)-1 {
			if cur.hasRSib {
				w.bad("tree %s: rightmost leaf %d has a right sibling link (%d)", name, cur.fileOffset, cur.rSibFileOffset)
			}
			break
		}
		if !cur.hasRSib {
			w.bad("tree %s: forward leaf chain ends at page %d after %d of %d leaves", name, cur.fileOffset, i+1, len(leaves))
			break
		}
		nx, err := w.fs.fetch(cur.rSibFileOffset)
		if err != nil {
			w.bad("tree %s: fetch right sibling: %v", name, err)
			break
		}
		cur = nx
	}
	// backward chain = exact reverse
	cur = leaves[len(leaves)-1].node
	for i := len(leaves) - 1; i >= 0; i-- {
		if cur.fileOffset != leaves[i].off {
			w.bad("tree %s: backward leaf chain visits page %d where tree order has %d (position %d)", name, cur.fileOffset, leaves[i].off, i)
			break
		}
		if i == 0 {
			break
		}
		if !cur.hasLSib {
			w.bad("tree %s: backward leaf chain ends at page %d, %d leaves short", name, cur.fileOffset, i)
			break
		}
		nx, err := w.fs.fetch(cur.lSibFileOffset)
		if err != nil {
			w.bad("tree %s: fetch left sibling: %v", name, err)
			break
		}
		cur = nx
	}
	// point lookups from the root
	bt := &BTree{store: w.fs, rootOffset: root}
	var prevKey uint32
	for li, l := range leaves {
		for _, o := range l.node.offsets {
			c := l.node.leafCells[o]
			got, err := bt.findCell(c.key)
			switch {
			case err != nil:
				w.bad("tree %s: findCell(%d): %v", name, c.key, err)
			case c.deleted && got != nil:
				w.bad("tree %s: findCell(%d) returns a tombstoned row", name, c.key)
			case !c.deleted && got == nil:
				w.bad("tree %s: stored key %d not found by point lookup", name, c.key)
			case !c.deleted && got.key != c.key:
				w.bad("tree %s: findCell(%d) returned key %d", name, c.key, got.key)
			}
			// one absent key per gap
			if c.key > prevKey+1 && (li > 0 || prevKey > 0) {
				if got, err := bt.findCell(c.key - 1); err == nil && got != nil {
					w.bad("tree %s: findCell(%d) found a key that is not stored", name, c.key-1)
				}
			}
			prevKey = c.key
		}
	}
}

// VerifReplaceCache gives the store a fresh, empty page cache of the given
// capacity. Only legal when no page is dirty (right after a flush): every page
// is then re-read from the data file on demand.
func VerifReplaceCache(rs *RelationService, capacity int) {
	for _, v := range rs.fs.cache.cache {
		if v.Value.(*cacheEntry).val.isDirty() {
			panic("VerifReplaceCache: the cache holds a dirty page")
		}
	}
	rs.fs.cache = NewLRU(capacity)
}

// VerifWalk checks the shape invariants of every tree of the database (the
// catalog trees and every table), starting from the header's catalog root.
func VerifWalk(rs *RelationService) (problems []string, stats VerifTreeStats) {
	w := verifWalkStore(rs.fs)
	return w.problems, w.stats
}

// VerifOwners maps every page reachable from the catalog of a data file image
// (the bytes of a tbl file) to the name of the tree it belongs to. The image is
// read through a private store without flusher or registration.
func VerifOwners(image []byte, scratchDir string) (owners map[uint64]string, err error) {
	f, err := os.CreateTemp(scratchDir, "owners-*")
	if err != nil {
		return nil, err
	}
	defer os.Remove(f.Name())
	defer f.Close()
	if _, err := f.Write(image); err != nil {
		return nil, err
	}
	if _, err := f.Seek(0, 0); err != nil {
		return nil, err
	}
	fs := &fileStore{cache: NewLRU(10000), file: f}
	if err := fs.open(); err != nil {
		return nil, err
	}
	defer func() {
		if x := recover(); x != nil {
			owners, err = nil, fmt.Errorf("walk of the image failed: %v", x)
		}
	}()
	w := verifWalkStore(fs)
	return w.visited, nil
}

func verifWalkStore(fs *fileStore) (w *verifWalker) {
	w = &verifWalker{fs: fs, visited: map[uint64]string{}}
	rs := &RelationService{fs: fs}
	defer func() {
		if x := recover(); x != nil {
			if _, ok := x.(VerifFuelExhausted); ok {
				panic(x)
			}
			w.bad("walker panicked: %v", x)
		}
	}()
	w.tree(pageTableName, rs.fs.pageTableRoot)
	// read the catalog for the other roots
	type ent struct {
		name string
		off  uint64
	}
	var ents []ent
	bt := &BTree{store: rs.fs, rootOffset: rs.fs.pageTableRoot}
	err := bt.scanRight(func(cell *leafCell) (ScanAction, error) {
		t := Tuple{Relation: &pageTableSchema, Vals: map[string]interface{}{}}
		if err := t.Decode(bytes.NewBuffer(cell.valueBytes)); err != nil {
			return StopScanning, err
		}
		name, _ := t.Vals["table_name"].(string)
		off, _ := t.Vals["file_offset"].(int64)
		ents = append(ents, ent{name, uint64(off)})
		return KeepScanning, nil
	})
	if err != nil {
		w.bad("catalog scan: %v", err)
	}
	seen := map[string]bool{}
	for _, e := range ents {
		if seen[e.name] {
			w.bad("catalog lists table %s twice", e.name)
		}
		seen[e.name] = true
		if e.name == pageTableName {
			continue // walked from the header; its own row keeps the initial offset
		}
		w.tree(e.name, e.off)
	}
	w.stats.Shape = w.shape.String()
	return w
}

// VerifPageDump returns a logical dump of every page reachable from the
// catalog, for "same canonical state => same pages" assertions.
func VerifPageDump(rs *RelationService) string {
	var b bytes.Buffer
	offs := make([]uint64, 0)
	for off := uint64(pageSize); off < rs.fs.nextFreeOffset; off += pageSize {
		offs = append(offs, off)
	}
	for _, off := range offs {
		n, err := rs.fs.fetch(off)
		if err != nil {
			fmt.Fprintf(&b, "%d: error %v\n", off, err)
			continue
		}
		fmt.Fprintf(&b, "%d: leaf=%v n=%d ", off, n.isLeaf, len(n.offsets))
		if n.isLeaf {
			fmt.Fprintf(&b, "L=%v:%d R=%v:%d ", n.hasLSib, n.lSibFileOffset, n.hasRSib, n.rSibFileOffset)
			for _, o := range n.offsets {
				c := n.leafCells[o]
				fmt.Fprintf(&b, "(%d %v %x)", c.key, c.deleted, c.valueBytes)
			}
		} else {
			fmt.Fprintf(&b, "right=%d ", n.rightOffset)
			for _, o := range n.offsets {
				c := n.internalCells[o]
				fmt.Fprintf(&b, "(%d %d)", c.key, c.fileOffset)
			}
		}
		b.WriteByte('\n')
	}
	return b.String()
}
