package storage

import (
	"container/list"
	"fmt"
	"strings"

	"verif/lib"
)

// C15 — explicit-state search over the real LRUCache.
//
// A state is the recency-ordered list of (key, dirty) pairs. Successors are
// computed by replaying the shortest operation path on a fresh cache and then
// applying one more operation; the search runs to a fixpoint, so the claim is
// "all reachable states", not "depth <= n". After every transition the real
// cache is compared with a slice model (return value, full recency order, map
// index) and the property's own clauses are asserted independently of the model.

var c15OpNames = []string{"setClean", "setDirty", "setSame", "get", "markDirty", "markClean", "markDirtyOlderLSN", "markDirtySameLSN"}

type c15Op struct {
	kind int // 0 set fresh clean, 1 set fresh dirty, 2 set current node, 3 get, 4 markDirty, 5 markClean, 6/7 markDirty with an LSN older than / equal to the page's stamp
	key  int
}

func (o c15Op) String() string {
	return fmt.Sprintf("%s(%d)", c15OpNames[o.kind], o.key)
}

type c15Ent struct {
	key  int
	node *btreeNode
}

type c15Model struct {
	cap  int
	ents []c15Ent // front = most recently used
}

func (m *c15Model) find(k int) int {
	for i, e := range m.ents {
		if e.key == k {
			return i
		}
	}
	return -1
}

func (m *c15Model) toFront(i int) {
	e := m.ents[i]
	copy(m.ents[1:i+1], m.ents[:i])
	m.ents[0] = e
}

func (m *c15Model) set(k int, n *btreeNode) (ok bool, evicted int) {
	evicted = -1
	if i := m.find(k); i >= 0 {
		m.ents[i].node = n
		m.toFront(i)
		return true, -1
	}
	if len(m.ents) == m.cap {
		v := -1
		for i := len(m.ents) - 1; i >= 0; i-- {
			if !m.ents[i].node.dirty {
				v = i
				break
			}
		}
		if v < 0 {
			return false, -1
		}
		evicted = m.ents[v].key
		m.ents = append(m.ents[:v], m.ents[v+1:]...)
	}
	m.ents = append([]c15Ent{{k, n}}, m.ents...)
	return true, evicted
}

func (m *c15Model) get(k int) (*btreeNode, bool) {
	if i := m.find(k); i >= 0 {
		m.toFront(i)
		return m.ents[0].node, true
	}
	return nil, false
}

func (m *c15Model) canon() string {
	var sb strings.Builder
	for _, e := range m.ents {
		d := 'c'
		if e.node.dirty {
			d = 'd'
		}
		fmt.Fprintf(&sb, "%d%c ", e.key, d)
	}
	return sb.String()
}

// the cache is keyed the way the engine keys it: by the page's file offset (uint64)
func c15Off(k int) uint64 { return uint64(k+1) * pageSize }

// c15KeyMode: the Go type the keys are handed to the cache in. 0: uint64 file offsets (what the engine uses);
// 1: int, 2: uint32, 3: int64, 4: string (what the repository's own tests use) - the cache takes keys of any type.
var c15KeyMode int

func c15Key(k int) any {
	switch c15KeyMode {
	case 1:
		return int(c15Off(k))
	case 2:
		return uint32(c15Off(k))
	case 3:
		return int64(c15Off(k))
	case 4:
		return fmt.Sprint(c15Off(k))
	}
	return c15Off(k)
}

func c15KeyBack(k any) int {
	var off uint64
	switch x := k.(type) {
	case uint64:
		off = x
	case int:
		off = uint64(x)
	case uint32:
		off = uint64(x)
	case int64:
		off = uint64(x)
	case string:
		fmt.Sscan(x, &off)
	}
	return int(off/pageSize) - 1
}

// c15Node: a fresh page for key k. Odd keys are leaves linked to both neighbouring keys, even keys interior
// pages whose cells and right-most pointer name the neighbouring keys.
func c15Node(k int, dirty bool) *btreeNode {
	n := &btreeNode{fileOffset: c15Off(k), dirty: dirty, isLeaf: k%2 == 1}
	if n.isLeaf {
		n.hasLSib, n.lSibFileOffset = true, c15Off(k-1)
		n.hasRSib, n.rSibFileOffset = true, c15Off(k+1)
	} else {
		if k > 0 {
			n.appendInternalCell(uint32(k), c15Off(k-1))
		}
		n.setRightMostKey(c15Off(k + 1))
	}
	n.dirty = dirty
	return n
}

// c15Apply applies op to both the real cache and the model and checks every
// clause; it returns a description of the first disagreement.
func c15Apply(lru *LRUCache, m *c15Model, op c15Op) (applicable bool, problem string) {
	// snapshot for the model-independent clauses
	type snap struct {
		key   int
		dirty bool
		node  *btreeNode
	}
	var before []snap // front..back
	for e := lru.list.Front(); e != nil; e = e.Next() {
		ce := e.Value.(*cacheEntry)
		before = append(before, snap{c15KeyBack(ce.key), ce.val.isDirty(), ce.val})
	}
	resident := func(k int) *btreeNode {
		if i := m.find(k); i >= 0 {
			return m.ents[i].node
		}
		return nil
	}
	switch op.kind {
	case 0, 1, 2:
		var n *btreeNode
		if op.kind == 2 {
			n = resident(op.key)
			if n == nil {
				return false, ""
			}
		} else {
			// (leaves and interior pages alternate by key: the kind of a page is none of the cache's business)
			// (and pages point at each other - leaves at their neighbours, interior pages at their children -
			// by the very file offsets they are cached under: none of the cache's business either)
			n = c15Node(op.key, op.kind == 1)
		}
		got := lru.set(c15Key(op.key), n)
		want, evicted := m.set(op.key, n)
		if got != want {
			return true, fmt.Sprintf("set returned %v, reference says %v", got, want)
		}
		// property clauses, stated without the model:
		full := len(before) == lru.maxNodes
		allDirty := true
		isResident := false
		for _, s := range before {
			if !s.dirty {
				allDirty = false
			}
			if s.key == op.key {
				isResident = true
			}
		}
		if !got && !(full && allDirty && !isResident) {
			return true, "insertion refused although the cache is not full of dirty pages"
		}
		if got && !isResident && full && allDirty {
			return true, "insertion accepted into a cache full of dirty pages (something unsaved was dropped or capacity exceeded)"
		}
		if got {
			if v, ok := lru.cache[c15Key(op.key)]; !ok || v.Value.(*cacheEntry).val != n {
				return true, "lookup after set does not return the page just stored"
			}
		}
		// every dirty page resident before must still be resident
		for _, s := range before {
			if s.dirty && s.key != op.key {
				if v, ok := lru.cache[c15Key(s.key)]; !ok || v.Value.(*cacheEntry).val != s.node {
					return true, fmt.Sprintf("dirty page %d left the cache", s.key)
				}
			}
		}
		// the evicted entry is the least recently used clean one
		if got && !isResident && full {
			wantEv := -1
			for i := len(before) - 1; i >= 0; i-- {
				if !before[i].dirty {
					wantEv = before[i].key
					break
				}
			}
			gone := []int{}
			for _, s := range before {
				if _, ok := lru.cache[c15Key(s.key)]; !ok {
					gone = append(gone, s.key)
				}
			}
			if len(gone) != 1 || gone[0] != wantEv || wantEv != evicted {
				return true, fmt.Sprintf("evicted %v, least recently used clean entry is %d", gone, wantEv)
			}
		}
	case 3:
		gn, gok := lru.get(c15Key(op.key))
		wn, wok := m.get(op.key)
		if gok != wok || gn != wn {
			return true, fmt.Sprintf("get(%d) = (%p,%v), reference (%p,%v)", op.key, gn, gok, wn, wok)
		}
	case 4, 5, 6, 7:
		n := resident(op.key)
		if n == nil {
			return false, ""
		}
		if (op.kind != 5) == n.dirty {
			return false, "" // no state change; skip
		}
		switch op.kind {
		case 4:
			n.markDirty(n.lastLSN + 1)
		case 6, 7:
			// the page carries a stamp from an earlier life (read from disk, or stamped ahead of a counter that
			// recovery set back); a change with an LSN that is not newer is still a change
			n.lastLSN = 5
			n.markDirty(map[int]uint64{6: 1, 7: 5}[op.kind])
		case 5:
			n.markClean()
		}
		if op.kind != 5 && !n.dirty {
			return true, fmt.Sprintf("page %d was marked as modified but is not dirty: it can be evicted, and the flush skips it, with the change unsaved", op.key)
		}
	}
	// full structural comparison with the model
	if lru.list.Len() != len(m.ents) || len(lru.cache) != len(m.ents) {
		return true, fmt.Sprintf("size: list %d, index %d, reference %d", lru.list.Len(), len(lru.cache), len(m.ents))
	}
	if len(m.ents) > lru.maxNodes {
		return true, "more entries than capacity"
	}
	i := 0
	for e := lru.list.Front(); e != nil; e = e.Next() {
		ce := e.Value.(*cacheEntry)
		if c15KeyBack(ce.key) != m.ents[i].key || ce.val != m.ents[i].node {
			return true, fmt.Sprintf("recency order differs at position %d: have key %v, reference key %d", i, ce.key, m.ents[i].key)
		}
		if lru.cache[ce.key] != e {
			return true, fmt.Sprintf("index entry for key %v does not point at its list element", ce.key)
		}
		i++
	}
	return true, ""
}

func c15Replay(capacity int, path []c15Op) (*LRUCache, *c15Model, string) {
	lru := NewLRU(capacity)
	m := &c15Model{cap: capacity}
	for _, op := range path {
		if _, p := c15Apply(lru, m, op); p != "" {
			return lru, m, p
		}
	}
	return lru, m, ""
}

var _ = list.New

func runC15(env *lib.Env, rep *lib.Report) {
	type scope struct{ cap, keys, mode int }
	scopes := []scope{{1, 2, 0}, {1, 3, 0}, {2, 3, 0}, {2, 4, 0}, {3, 4, 0}, {3, 5, 0}, {4, 5, 0},
		// the same search with the keys handed over as int / uint32 / int64 / string
		{2, 3, 1}, {2, 3, 2}, {2, 3, 3}, {2, 3, 4}, {3, 4, 1}, {1, 2, 4}}
	if env.Thorough() {
		scopes = append(scopes, scope{4, 6, 0}, scope{5, 6, 0}, scope{5, 7, 0}, scope{6, 7, 0}, scope{3, 5, 1}, scope{3, 4, 2}, scope{3, 4, 3}, scope{3, 4, 4})
	}
	rep.Bounds["key types"] = "uint64 file offsets (every scope); int, uint32, int64, string (small scopes)"
	rep.Bounds["scopes(capacity,keys)"] = fmt.Sprint(scopes)
	rep.Bounds["search"] = "breadth-first to fixpoint over canonical states (recency-ordered (key,dirty) list)"
	if env.Replay != "" {
		rf := lib.LoadReplay(env.Replay)
		var sc scope
		fmt.Sscanf(rf.Params, "cap=%d keys=%d mode=%d", &sc.cap, &sc.keys, &sc.mode)
		c15KeyMode = sc.mode
		var path []c15Op
		for _, s := range rf.Trace {
			var o c15Op
			for k, nm := range c15OpNames {
				if strings.HasPrefix(s, nm+"(") && (o.kind == 0 || len(nm) > len(c15OpNames[o.kind])) {
					o.kind = k
					fmt.Sscanf(s[len(nm):], "(%d)", &o.key)
				}
			}
			path = append(path, o)
		}
		_, _, p := c15Replay(sc.cap, path)
		lib.Say("replay C15 %s path=%v -> %q", rf.Params, path, p)
		if p != "" {
			rep.AddFailure(&lib.Failure{Kind: "lru-model-mismatch", Detail: p, Trace: rf.Trace, Params: rf.Params})
		}
		return
	}
	for si, sc := range scopes {
		if si%env.NShards != env.Shard {
			continue
		}
		c15KeyMode = sc.mode
		seen := map[string][]c15Op{"": nil}
		frontier := [][]c15Op{nil}
		var states, trans, lookahead int64 = 1, 0, 0
		lookDepth := 1
		if sc.cap <= 3 && sc.keys <= 5 || env.Thorough() && sc.cap <= 4 && sc.keys <= 5 {
			lookDepth = 2
		}
		outcomes := map[string]bool{}
		cut := false
		for len(frontier) > 0 {
			if env.Expired() {
				rep.Exhaustive = false
				rep.Notes = append(rep.Notes, fmt.Sprintf("soft deadline reached inside scope capacity %d / %d keys after %d states; the smaller scopes were completed", sc.cap, sc.keys, states))
				cut = true
				break
			}
			path := frontier[0]
			frontier = frontier[1:]
			for kind := 0; kind < len(c15OpNames); kind++ {
				for k := 0; k < sc.keys; k++ {
					op := c15Op{kind, k}
					lru, m, p := c15Replay(sc.cap, path)
					if p != "" {
						panic(lib.HarnessError{Msg: "replay of an accepted path failed: " + p})
					}
					applicable, p := c15Apply(lru, m, op)
					if !applicable {
						continue
					}
					trans++
					key := m.canon()
					outcomes[key] = true
					nontrivial := len(m.ents) == sc.cap // the cache is full after the step
					rep.AddCase(nontrivial, lib.HashString(fmt.Sprintf("%d/%d %s -> %s", sc.cap, sc.keys, op, key)), lib.HashString(key))
					np := append(append([]c15Op{}, path...), op)
					if p != "" {
						tr := make([]string, len(np))
						for i, o := range np {
							tr[i] = o.String()
						}
						rep.AddFailure(&lib.Failure{Kind: "lru-model-mismatch", Detail: fmt.Sprintf("capacity %d, keys %d, after %v: %s", sc.cap, sc.keys, np, p),
							Trace: tr, Params: fmt.Sprintf("cap=%d keys=%d mode=%d", sc.cap, sc.keys, sc.mode)})
						continue // do not explore beyond a broken state
					}
					if kind >= 6 {
						// markDirty with an older / equal LSN is a probe: it has just been checked to set the
						// dirty flag, after which it is the same step as markDirty (kind 4), which is expanded
						continue
					}
					if _, ok := seen[key]; ok && len(np) > len(seen[key]) {
						// A different (longer) path into an already known canonical state. The search does
						// not expand it again, which is only sound if the cache has no state beyond the
						// recency order and the dirty flags. Check that: every sequence of one and of two
						// further operations applied after THIS path must still agree with the model
						// (two steps only where the scope is small enough: see lookDepth).
						var look func(prefix []c15Op, depth int)
						look = func(prefix []c15Op, depth int) {
							for k2 := 0; k2 < 6; k2++ {
								for key2 := 0; key2 < sc.keys; key2++ {
									l2, m2, p2 := c15Replay(sc.cap, prefix)
									if p2 != "" {
										return
									}
									ok2, p2 := c15Apply(l2, m2, c15Op{k2, key2})
									if !ok2 {
										continue
									}
									lookahead++
									full := append(append([]c15Op{}, prefix...), c15Op{k2, key2})
									if p2 != "" {
										tr := make([]string, len(full))
										for i, o := range full {
											tr[i] = o.String()
										}
										rep.AddFailure(&lib.Failure{Kind: "lru-model-mismatch", Detail: fmt.Sprintf("capacity %d, keys %d, after %v (a longer path into a known recency/dirty state): %s", sc.cap, sc.keys, full, p2),
											Trace: tr, Params: fmt.Sprintf("cap=%d keys=%d mode=%d", sc.cap, sc.keys, sc.mode)})
										continue
									}
									if depth > 1 {
										look(full, depth-1)
									}
								}
							}
						}
						look(np, lookDepth)
					}
					if _, ok := seen[key]; !ok {
						seen[key] = np
						frontier = append(frontier, np)
						states++
						if rep.WantSample() {
							rep.AddSample(map[string]any{"capacity": sc.cap, "keys": sc.keys, "path": fmt.Sprint(np), "state(front..back)": key})
						}
					}
				}
			}
		}
		rep.States += states
		rep.Transitions += trans
		if cut {
			rep.Transitions += lookahead
			continue
		}
		rep.Tags[fmt.Sprintf("scope-%d-%d-fixpoint", sc.cap, sc.keys)]++
		rep.Notes = append(rep.Notes, fmt.Sprintf("capacity %d, %d keys: %d states, %d transitions, fixpoint reached; %d lookahead steps (depth %d) from non-shortest paths into known states (abstraction check)", sc.cap, sc.keys, states, trans, lookahead, lookDepth))
		rep.Transitions += lookahead
		// closed form: ordered selections of <= cap of the keys, each clean or dirty
		want := int64(0)
		for n := 0; n <= sc.cap && n <= sc.keys; n++ {
			p := int64(1)
			for i := 0; i < n; i++ {
				p *= int64(sc.keys - i)
			}
			want += p << uint(n)
		}
		if states != want && rep.FailCount == 0 {
			panic(lib.HarnessError{Msg: fmt.Sprintf("state count %d differs from closed form %d for capacity %d keys %d (canonicalisation or op alphabet wrong)", states, want, sc.cap, sc.keys)})
		}
	}
	// wide caches: for capacities up to several hundred, every position of the single clean entry among
	// dirty ones (and of two clean entries), then an insertion: it must be accepted and must evict exactly the
	// least recently used clean entry, however far from the cold end that is; with no clean entry it is refused.
	c15KeyMode = 0
	wide := []int{8, 16, 63, 64, 65, 66, 100, 129, 257}
	if env.Thorough() {
		wide = append(wide, 512, 1000)
	}
	rep.Bounds["wide capacities"] = fmt.Sprintf("%v: every position of one clean entry (and of a second one) among dirty entries, then an insertion, a lookup of every key and a second insertion, compared with the model step by step", wide)
	var wideCases int64
	for wi, capacity := range wide {
		if wi%env.NShards != env.Shard {
			continue
		}
		for p1 := -1; p1 < capacity; p1++ { // -1: no clean entry at all
			seconds := []int{-1}
			if p1 >= 0 {
				seconds = append(seconds, (p1+1)%capacity, (p1+capacity/2)%capacity, capacity-1, 0)
			}
			for _, p2 := range seconds {
				var path []c15Op
				for k := 0; k < capacity; k++ {
					if k == p1 || k == p2 {
						path = append(path, c15Op{0, k}) // clean
					} else {
						path = append(path, c15Op{1, k}) // dirty
					}
				}
				path = append(path, c15Op{0, capacity}, c15Op{3, capacity}, c15Op{3, 0}, c15Op{1, capacity + 1}, c15Op{3, capacity - 1}, c15Op{0, capacity + 2})
				_, m, prob := c15Replay(capacity, path)
				wideCases++
				rep.AddCase(true, lib.HashString(fmt.Sprintf("wide %d %d %d", capacity, p1, p2)), lib.HashString(m.canon()))
				if prob != "" {
					tr := make([]string, len(path))
					for i, o := range path {
						tr[i] = o.String()
					}
					rep.AddFailure(&lib.Failure{Kind: "lru-model-mismatch", Detail: fmt.Sprintf("capacity %d: keys 0..%d stored in that order, all dirty except %d and %d (-1 = none), then setClean(%d) get(%d) get(0) setDirty(%d) get(%d) setClean(%d): %s",
						capacity, capacity-1, p1, p2, capacity, capacity, capacity+1, capacity-1, capacity+2, prob), Trace: tr, Params: fmt.Sprintf("cap=%d keys=%d", capacity, capacity+3)})
					break
				}
			}
		}
	}
	rep.Transitions += wideCases
	// setCache surfaces a refusal as ErrLRUCacheFull (shard 0 only)
	if env.Shard == 0 {
		f := &fileStore{cache: NewLRU(2)}
		a, b, c := &btreeNode{dirty: true}, &btreeNode{dirty: true}, &btreeNode{}
		e1, e2, e3 := f.setCache(uint64(1), a), f.setCache(uint64(2), b), f.setCache(uint64(3), c)
		rep.AddCase(true, lib.HashString("setCache-full"), 1)
		if e1 != nil || e2 != nil || e3 != ErrLRUCacheFull {
			rep.AddFailure(&lib.Failure{Kind: "setCache", Detail: fmt.Sprintf("setCache on a cache full of dirty pages returned %v,%v,%v; want nil,nil,ErrLRUCacheFull", e1, e2, e3)})
		}
		b.markClean()
		if e := f.setCache(uint64(3), c); e != nil {
			rep.AddFailure(&lib.Failure{Kind: "setCache", Detail: "setCache refused although a clean page was evictable: " + e.Error()})
		}
	}
}
