package storage

import (
	"bytes"
	"fmt"
	"os"
	"path/filepath"
	"strings"
	"sync"

	"verif/lib"
)

// C12 — every node shape within capacity serialises to one 4096-byte page and
// reads back as the same node, directly and through fileStore.update -> fetch
// on a cold cache. Nodes are built with the engine's own mutators
// (insertLeafCell / appendInternalCell / split / markDirty), so every shape is
// one the engine can produce; the enumeration is a bounded product.

type c12Leaf struct {
	keys    []uint32
	sizes   []int
	deleted []bool
	perm    []int // insertion order (nil = ascending)
	hasL    bool
	hasR    bool
	lOff    uint64
	rOff    uint64
	lsn     uint64
	off     uint64
	dirty   bool
}

func c12Value(size int, salt uint32) []byte {
	b := make([]byte, size)
	for i := range b {
		b[i] = byte(uint32(i)*7 + salt*13 + 1)
	}
	return b
}

func (l *c12Leaf) build() *btreeNode {
	n := &btreeNode{isLeaf: true}
	order := l.perm
	if order == nil {
		order = make([]int, len(l.keys))
		for i := range order {
			order[i] = i
		}
	}
	for _, i := range order {
		pos, _ := n.findCellOffsetByKey(l.keys[i])
		if err := n.insertLeafCell(uint32(pos), l.keys[i], c12Value(l.sizes[i], l.keys[i])); err != nil {
			panic(lib.HarnessError{Msg: "insertLeafCell: " + err.Error()})
		}
	}
	for i, d := range l.deleted {
		if d {
			pos, _ := n.findCellOffsetByKey(l.keys[i])
			n.leafCells[n.offsets[pos]].deleted = true
		}
	}
	n.hasLSib, n.hasRSib, n.lSibFileOffset, n.rSibFileOffset = l.hasL, l.hasR, l.lOff, l.rOff
	n.fileOffset = l.off
	n.markDirty(l.lsn)
	return n
}

type c12Cell struct {
	key     uint32
	deleted bool
	val     string
	off     uint64
}

// c12Logical is the logical content of a node.
func c12Logical(n *btreeNode) string {
	var b bytes.Buffer
	fmt.Fprintf(&b, "leaf=%v off=%d lsn=%d ", n.isLeaf, n.fileOffset, n.lastLSN)
	if n.isLeaf {
		fmt.Fprintf(&b, "L=%v:%d R=%v:%d cells=", n.hasLSib, n.lSibFileOffset, n.hasRSib, n.rSibFileOffset)
		for _, o := range n.offsets {
			c := n.leafCells[o]
			fmt.Fprintf(&b, "(%d,%v,%d,%x)", c.key, c.deleted, c.valueSize, lib.HashString(string(c.valueBytes)))
			if int(c.valueSize) != len(c.valueBytes) {
				fmt.Fprintf(&b, "!size")
			}
		}
	} else {
		fmt.Fprintf(&b, "right=%d cells=", n.rightOffset)
		for _, o := range n.offsets {
			c := n.internalCells[o]
			fmt.Fprintf(&b, "(%d,%d)", c.key, c.fileOffset)
		}
	}
	return b.String()
}

type c12Run struct {
	rep   *lib.Report
	fs    *fileStore
	dir   string
	prog  lib.Progress // the shape in progress, for the case that decoding dies of a fatal runtime error (a garbage length)
	count int64
	shard int
	nsh   int
}

func (r *c12Run) check(desc string, n *btreeNode, viaFile bool, nontrivial bool) {
	r.count++
	if int(r.count)%r.nsh != r.shard {
		return
	}
	r.prog.Set("shape", desc)
	want := c12Logical(n)
	fail := func(kind, d string) {
		r.rep.AddFailure(&lib.Failure{Kind: kind, Detail: desc + ": " + d, Trace: []string{desc, want}})
	}
	var out string
	func() {
		defer func() {
			if x := recover(); x != nil {
				fail("panic", fmt.Sprint(x))
			}
		}()
		buf, err := n.encode()
		if err != nil {
			fail("encode-error", err.Error())
			return
		}
		if buf.Len() != pageSize {
			fail("page-size", fmt.Sprintf("encoded to %d bytes", buf.Len()))
			return
		}
		raw := append([]byte{}, buf.Bytes()...)
		wantKind := InternalNode
		if n.isLeaf {
			wantKind = LeafNode
		}
		if raw[0] != wantKind {
			fail("kind-byte", fmt.Sprintf("first byte %d", raw[0]))
			return
		}
		m := &btreeNode{isLeaf: n.isLeaf}
		if err := m.decode(bytes.NewBuffer(raw)); err != nil {
			fail("decode-error", err.Error())
			return
		}
		out = c12Logical(m)
		if out != want {
			fail("roundtrip", "decoded node differs: "+out)
			return
		}
		// a second encode of the decoded node is byte-identical (one canonical page per node)
		buf2, err := m.encode()
		if err != nil || !bytes.Equal(buf2.Bytes(), raw) {
			fail("re-encode", "encode(decode(page)) differs from page")
			return
		}
		if viaFile {
			// write through the store, read back through a cold cache
			r.fs.cache = NewLRU(4)
			if err := r.fs.update(n); err != nil {
				fail("update-error", err.Error())
				return
			}
			r.fs.cache = NewLRU(4)
			g, err := r.fs.fetch(n.fileOffset)
			if err != nil {
				fail("fetch-error", err.Error())
				return
			}
			if g == n {
				panic(lib.HarnessError{Msg: "fetch served from cache, expected cold read"})
			}
			if got := c12Logical(g); got != want {
				fail("file-roundtrip", "fetched node differs: "+got)
				return
			}
			if g.isDirty() {
				fail("file-roundtrip", "freshly fetched page is dirty")
			}
		}
	}()
	r.rep.AddCase(nontrivial, lib.HashString(want), lib.HashString(out))
	if r.rep.WantSample() {
		r.rep.AddSample(map[string]any{"shape": desc, "logical": want})
	}
}

func c12Internal(cells int, base uint32, off uint64, lsn uint64) *btreeNode {
	node := &btreeNode{fileOffset: off}
	for i := 0; i < cells; i++ {
		node.appendInternalCell(base+uint32(i), uint64(4096*(i+2)))
	}
	node.rightOffset = uint64(4096 * (cells + 3))
	node.markDirty(lsn)
	return node
}

// c12RacePass: free-running, built with -race by the driver. Several stores (each with its own file, as two
// databases or two sessions have) write and re-read pages at the same time: serialising a page must not
// go through anything shared between stores. The race detector reports such sharing whatever the timing;
// the round trips are compared as well.
func c12RacePass(env *lib.Env, rep *lib.Report) {
	dir := filepath.Join(lib.ScratchRoot(), "c12race")
	os.MkdirAll(dir, 0755)
	defer os.RemoveAll(dir)
	const workers, rounds = 4, 200
	var wg sync.WaitGroup
	var mu sync.Mutex
	var problems []string
	for w := 0; w < workers; w++ {
		w := w
		wg.Add(1)
		go func() {
			defer wg.Done()
			defer func() {
				if x := recover(); x != nil {
					if he, ok := x.(lib.HarnessError); ok {
						panic(he)
					}
					mu.Lock()
					problems = append(problems, fmt.Sprintf("store %d: panic while writing and re-reading pages: %v", w, x))
					mu.Unlock()
				}
			}()
			fs, err := newFileStore(filepath.Join(dir, fmt.Sprintf("tbl%d", w)), false)
			if err != nil {
				panic(lib.HarnessError{Msg: err.Error()})
			}
			defer fs.file.Close()
			for i := 0; i < rounds; i++ {
				var n *btreeNode
				if (i+w)%2 == 0 {
					nc := 1 + (i+w)%8
					l := &c12Leaf{keys: make([]uint32, nc), sizes: make([]int, nc), deleted: make([]bool, nc), off: uint64(4096 * (1 + i%5)), lsn: uint64(i)}
					for k := range l.keys {
						l.keys[k], l.sizes[k] = uint32(100*w+k), (37*w+11*k+i)%401
					}
					n = l.build()
				} else {
					n = c12Internal(2+(i*7+w)%280, uint32(1000*w), uint64(4096*(1+i%5)), uint64(i))
				}
				want := c12Logical(n)
				fs.cache = NewLRU(4)
				if err := fs.update(n); err != nil {
					mu.Lock()
					problems = append(problems, fmt.Sprintf("store %d round %d: update: %v", w, i, err))
					mu.Unlock()
					return
				}
				fs.cache = NewLRU(4)
				g, err := fs.fetch(n.fileOffset)
				if err != nil || c12Logical(g) != want {
					mu.Lock()
					if len(problems) < 5 {
						problems = append(problems, fmt.Sprintf("store %d round %d: page written while %d other stores were writing reads back differently (error %v)", w, i, workers-1, err))
					}
					mu.Unlock()
					return
				}
			}
		}()
	}
	wg.Wait()
	rep.Evaluations = workers * rounds
	rep.AddCase(true, 1, 1)
	rep.AddCase(true, 2, 2)
	if len(problems) > 0 {
		rep.AddFailure(&lib.Failure{Kind: "concurrent-roundtrip", Detail: strings.Join(problems, "\n"), Trace: []string{"race pass"}})
	}
	rep.Notes = append(rep.Notes, fmt.Sprintf("race pass: %d stores x %d pages written and re-read concurrently", workers, rounds))
}

func runC12(env *lib.Env, rep *lib.Report) {
	if os.Getenv("VERIF_RACE_PASS") != "" {
		c12RacePass(env, rep)
		return
	}
	dir := filepath.Join(lib.ScratchRoot(), "c12")
	os.MkdirAll(dir, 0755)
	fs, err := newFileStore(filepath.Join(dir, "tbl"), false)
	if err != nil {
		panic(lib.HarnessError{Msg: err.Error()})
	}
	defer fs.file.Close()
	r := &c12Run{rep: rep, fs: fs, dir: dir, shard: env.Shard, nsh: env.NShards}
	r.prog.MapJournal(env.Journal)
	defer r.prog.Done()

	sizes := []int{0, 1, 2, 399, 400}
	lsns := []uint64{0, 1, 1 << 32, 1<<64 - 1}
	sibOffs := []uint64{0, 4096, 1 << 40, 1<<64 - 4096}
	fileOffs := []uint64{4096, 8192, 4096 * 300}
	keyBases := []uint32{0, 1, 1 << 31, 1<<32 - 10}
	maxLeaf := maxLeafNodeCells // 9: a leaf holds 9 cells for an instant before it splits
	rep.Bounds["leaf cells"] = fmt.Sprintf("0..%d", maxLeaf)
	rep.Bounds["value sizes"] = fmt.Sprint(sizes)
	rep.Bounds["lsn"] = fmt.Sprint(lsns)
	rep.Bounds["sibling offsets"] = fmt.Sprint(sibOffs)
	rep.Bounds["internal cells"] = "0,1,2,3,144,145,289,290 and post-split halves"

	mk := func(n int, base uint32) ([]uint32, []int, []bool) {
		k := make([]uint32, n)
		for i := range k {
			k[i] = base + uint32(i)
		}
		return k, make([]int, n), make([]bool, n)
	}
	// --- leaves: full product of size assignments and tombstone patterns for n <= 3 (quick) / 4 (thorough)
	fullN := 3
	if env.Thorough() {
		fullN = 6
	}
	rep.Bounds["leaves, full product of value sizes x tombstone patterns x LSNs"] = fmt.Sprintf("every leaf of 0..%d cells", fullN)
	for n := 0; n <= fullN; n++ {
		nAssign := 1
		for i := 0; i < n; i++ {
			nAssign *= len(sizes)
		}
		for a := 0; a < nAssign; a++ {
			for t := 0; t < 1<<uint(n); t++ {
				keys, sz, del := mk(n, 1)
				x := a
				for i := 0; i < n; i++ {
					sz[i] = sizes[x%len(sizes)]
					x /= len(sizes)
					del[i] = t>>uint(i)&1 == 1
				}
				for li, lsn := range lsns {
					l := &c12Leaf{keys: keys, sizes: sz, deleted: del, lsn: lsn, off: fileOffs[(a+t)%len(fileOffs)],
						hasL: t&1 == 1, hasR: a&1 == 1, lOff: sibOffs[(a+li)%4], rOff: sibOffs[(t+li)%4]}
					r.check(fmt.Sprintf("leaf n=%d sizes=%v tomb=%v lsn=%d", n, sz, del, lsn), l.build(), li == 0, n > 0 && t != 0)
				}
			}
		}
	}
	// --- leaves: larger n, one dimension varied at a time against defaults, plus all flag combinations
	for n := 1; n <= maxLeaf; n++ {
		for _, base := range keyBases {
			for si, uni := range sizes {
				for odd := -1; odd < n; odd++ {
					for _, oddSize := range sizes {
						if odd == -1 && oddSize != sizes[0] {
							continue
						}
						if odd >= 0 && oddSize == uni {
							continue
						}
						keys, sz, del := mk(n, base)
						for i := range sz {
							sz[i] = uni
						}
						if odd >= 0 {
							sz[odd] = oddSize
						}
						tombs := [][]bool{del}
						for _, pat := range []string{"all", "alt", "first", "last"} {
							d := make([]bool, n)
							for i := range d {
								d[i] = pat == "all" || (pat == "alt" && i%2 == 0) || (pat == "first" && i == 0) || (pat == "last" && i == n-1)
							}
							tombs = append(tombs, d)
						}
						for ti, d := range tombs {
							if ti > 0 && odd >= 0 && !env.Thorough() {
								continue
							}
							flags := (si + ti + n) % 4
							l := &c12Leaf{keys: keys, sizes: sz, deleted: d, lsn: lsns[(n+ti)%4], off: fileOffs[n%3],
								hasL: flags&1 == 1, hasR: flags&2 == 2, lOff: sibOffs[(n+si)%4], rOff: sibOffs[(n+ti)%4]}
							r.check(fmt.Sprintf("leaf n=%d base=%d uniform=%d odd=%d:%d tomb#%d", n, base, uni, odd, oddSize, ti), l.build(), base == 1, true)
						}
					}
				}
			}
		}
		// all sibling flag x offset combinations at this n
		for f := 0; f < 4; f++ {
			for _, lo := range sibOffs {
				for _, ro := range sibOffs {
					keys, sz, del := mk(n, 7)
					for i := range sz {
						sz[i] = 400
					}
					l := &c12Leaf{keys: keys, sizes: sz, deleted: del, lsn: 5, off: 4096, hasL: f&1 == 1, hasR: f&2 == 2, lOff: lo, rOff: ro}
					r.check(fmt.Sprintf("leaf n=%d all-400 flags=%d lOff=%d rOff=%d", n, f, lo, ro), l.build(), n == maxLeaf, true)
				}
			}
		}
	}
	// --- thorough: every value size 0..400 (uniform leaves of every cell count, and one cell of that size
	// at every position among cells that fill the rest of a 400-byte budget), plain and with alternating tombstones
	if env.Thorough() {
		rep.Bounds["every value size"] = "0..400 bytes x 1..9 cells: uniform, and as the odd cell at every position; with and without tombstones"
		for n := 1; n <= maxLeaf; n++ {
			for size := 0; size <= maxValueSize; size++ {
				for odd := -1; odd < n; odd++ {
					for tomb := 0; tomb < 2; tomb++ {
						keys, sz, del := mk(n, uint32(1000*n))
						for i := range sz {
							sz[i] = size
							if odd >= 0 && i != odd {
								sz[i] = maxValueSize - size
							}
							del[i] = tomb == 1 && (i+size)%2 == 0
						}
						flags := (n + size) % 4
						l := &c12Leaf{keys: keys, sizes: sz, deleted: del, lsn: lsns[(size+n)%4], off: fileOffs[size%3],
							hasL: flags&1 == 1, hasR: flags&2 == 2, lOff: sibOffs[size%4], rOff: sibOffs[(size+1)%4]}
						r.check(fmt.Sprintf("leaf n=%d size=%d odd=%d tomb=%d", n, size, odd, tomb), l.build(), false, true)
					}
				}
			}
		}
	}
	// --- leaves built out of order (permuted offset arrays), n <= 4
	var permute func(p []int, k int, f func([]int))
	permute = func(p []int, k int, f func([]int)) {
		if k == len(p) {
			f(p)
			return
		}
		for i := k; i < len(p); i++ {
			p[k], p[i] = p[i], p[k]
			permute(p, k+1, f)
			p[k], p[i] = p[i], p[k]
		}
	}
	for n := 2; n <= 4; n++ {
		p := make([]int, n)
		for i := range p {
			p[i] = i
		}
		permute(p, 0, func(q []int) {
			keys, sz, del := mk(n, 10)
			for i := range sz {
				sz[i] = sizes[(i+1)%len(sizes)]
			}
			del[n-1] = true
			l := &c12Leaf{keys: keys, sizes: sz, deleted: del, perm: append([]int{}, q...), lsn: 9, off: 8192}
			r.check(fmt.Sprintf("leaf n=%d insertion order %v", n, q), l.build(), true, true)
		})
	}
	// --- leaves after a split (offset array shorter than the cell slice)
	for n := 2; n <= maxLeaf; n++ {
		keys, sz, del := mk(n, 100)
		for i := range sz {
			sz[i] = sizes[i%len(sizes)]
		}
		del[n/2] = true
		left := (&c12Leaf{keys: keys, sizes: sz, deleted: del, lsn: 3, off: 4096}).build()
		right := &btreeNode{isLeaf: true, fileOffset: 8192}
		if _, err := left.split(right); err != nil {
			panic(lib.HarnessError{Msg: err.Error()})
		}
		right.markDirty(3)
		r.check(fmt.Sprintf("left half of split leaf n=%d", n), left, true, true)
		r.check(fmt.Sprintf("right half of split leaf n=%d", n), right, true, true)
	}
	// --- leaves whose cells were rewritten by updateCell (the engine's UPDATE): every cell of leaves of 1..4 cells
	// updated from every size to every size (shorter, equal, longer, empty, the maximum), one or two updates
	updSizes := append(append([]int{}, sizes...), 30, 100, 150) // (moderate sizes too: a value that grows into the room of its neighbours)
	for n := 1; n <= 4; n++ {
		for _, from := range updSizes {
			for _, to := range updSizes {
				for pos := 0; pos < n; pos++ {
					keys, sz, del := mk(n, 20)
					for i := range sz {
						sz[i] = from
					}
					l := &c12Leaf{keys: keys, sizes: sz, deleted: del, lsn: 3, off: 8192, hasR: n%2 == 0, rOff: 4096 * 9}
					node := l.build()
					if err := node.updateCell(keys[pos], c12Value(to, 77)); err != nil {
						panic(lib.HarnessError{Msg: "updateCell: " + err.Error()})
					}
					node.markDirty(4)
					r.check(fmt.Sprintf("leaf n=%d all cells %d bytes, cell %d updated to %d bytes", n, from, pos, to), node, true, true)
					// a second update of the same cell back to another size
					if err := node.updateCell(keys[pos], c12Value((from+to)/2, 78)); err != nil {
						panic(lib.HarnessError{Msg: "updateCell: " + err.Error()})
					}
					r.check(fmt.Sprintf("leaf n=%d all cells %d bytes, cell %d updated to %d then %d bytes", n, from, pos, to, (from+to)/2), node, true, true)
					// the same update applied to the page as it comes back from the data file (what UPDATE after a
					// restart or an eviction does): the values of a decoded page must not share storage
					if buf, err := l.build().encode(); err == nil {
						back := &btreeNode{isLeaf: true}
						if err := back.decode(bytes.NewBuffer(append([]byte{}, buf.Bytes()...))); err == nil {
							back.fileOffset = 8192
							if err := back.updateCell(keys[pos], c12Value(to, 77)); err != nil {
								panic(lib.HarnessError{Msg: "updateCell: " + err.Error()})
							}
							back.markDirty(4)
							want := l.build()
							want.updateCell(keys[pos], c12Value(to, 77))
							want.markDirty(4)
							if got, exp := c12Logical(back), c12Logical(want); got != exp {
								rep.AddFailure(&lib.Failure{Kind: "update-after-decode", Detail: fmt.Sprintf("leaf n=%d all cells %d bytes, written, read back, cell %d updated to %d bytes: the page now is %s, the same update on the original node gives %s", n, from, pos, to, got, exp),
									Trace: []string{"update-after-decode"}})
							}
							r.check(fmt.Sprintf("leaf n=%d all cells %d bytes, read back from its page, cell %d updated to %d bytes", n, from, pos, to), back, true, true)
						}
					}
				}
			}
		}
	}
	// a page read back from its encoding is a node like any other: the same further operations (more cells
	// inserted, then every cell updated) must give the same node as on the original - starting from the empty leaf
	for n0 := 0; n0 <= 3; n0++ {
		for more := 1; more <= 3; more++ {
			for _, size := range []int{0, 7, 120} {
				keys, sz, del := mk(n0, 40)
				for i := range sz {
					sz[i] = size
				}
				l := &c12Leaf{keys: keys, sizes: sz, deleted: del, lsn: 2, off: 12288}
				orig := l.build()
				buf, err := orig.encode()
				if err != nil {
					panic(lib.HarnessError{Msg: "encode: " + err.Error()})
				}
				back := &btreeNode{isLeaf: true}
				if err := back.decode(bytes.NewBuffer(append([]byte{}, buf.Bytes()...))); err != nil {
					rep.AddFailure(&lib.Failure{Kind: "decode-error", Detail: fmt.Sprintf("leaf of %d cells: %v", n0, err), Trace: []string{"ops-after-decode"}})
					continue
				}
				back.fileOffset = 12288
				desc := fmt.Sprintf("leaf of %d cells of %d bytes read back from its page, %d more cells inserted, every cell updated", n0, size, more)
				r.prog.Set("shape", desc)
				problem := ""
				func() {
					defer func() {
						if x := recover(); x != nil {
							problem = fmt.Sprintf("panic: %v", x)
						}
					}()
					for _, node := range []*btreeNode{orig, back} {
						for j := 0; j < more; j++ {
							key := uint32(40 + n0 + j)
							pos, _ := node.findCellOffsetByKey(key)
							if err := node.insertLeafCell(uint32(pos), key, c12Value(size+j, key)); err != nil {
								problem = "insertLeafCell: " + err.Error()
								return
							}
						}
						for j := 0; j < n0+more; j++ {
							if err := node.updateCell(uint32(40+j), c12Value(size+3, uint32(90+j))); err != nil {
								problem = "updateCell: " + err.Error()
								return
							}
						}
						node.markDirty(9)
					}
				}()
				if problem == "" {
					if a, b := c12Logical(orig), c12Logical(back); a != b {
						problem = "the node read back became " + b + ", the original became " + a
					}
				}
				if problem != "" {
					rep.AddFailure(&lib.Failure{Kind: "ops-after-decode", Detail: desc + ": " + problem, Trace: []string{desc}})
					continue
				}
				r.check(desc, back, true, true)
			}
		}
	}
	// leaves grown the way the engine grows them: cells are appended for as long as the node itself says it is not
	// full (isFull is what stands between an insertion and a split), rows are tombstoned in between; every node on
	// the way must still be one page
	for _, size := range []int{400, 399, 200, 0} {
		for _, policy := range []string{"no deletes", "every row deleted once the next one is in", "the first two deleted", "all but the newest deleted", "every second deleted"} {
			node := &btreeNode{isLeaf: true, fileOffset: 8192}
			grown := 0
			for step := 0; step < 64 && !node.isFull(); step++ {
				key := uint32(500 + step)
				pos, _ := node.findCellOffsetByKey(key)
				if err := node.insertLeafCell(uint32(pos), key, c12Value(size, key)); err != nil {
					panic(lib.HarnessError{Msg: "insertLeafCell: " + err.Error()})
				}
				grown++
				for i, c := range node.leafCells {
					switch policy {
					case "every row deleted once the next one is in", "all but the newest deleted":
						c.deleted = i < len(node.leafCells)-1
					case "the first two deleted":
						c.deleted = i < 2 && len(node.leafCells) > 2
					case "every second deleted":
						c.deleted = i%2 == 0 && i < len(node.leafCells)-1
					}
				}
				node.markDirty(uint64(step + 1))
				r.check(fmt.Sprintf("leaf grown cell by cell while it reports not full: %d cells of %d bytes, %s", grown, size, policy), node, step%3 == 0, true)
			}
		}
	}
	rep.Bounds["grown leaves"] = "cells of 400/399/200/0 bytes appended while isFull() is false, five tombstone policies, every intermediate node"
	// pages that reach the file the way the engine sends them there: appended to a store, stamped, and written by
	// the store's flush - in a store that has flushed before, with stamps above, at and below what earlier flushes
	// have seen (a new table's root is stamped 0). After every flush a second store opened on the file must read
	// every page back as the node that was flushed, and nothing may stay dirty.
	if env.Shard == 0 {
		stampSets := [][]uint64{{0}, {1}, {0, 7}, {7, 0}, {3, 3}, {9, 2, 0}, {1 << 40, 0, 5}}
		journeys := 0
		for _, first := range stampSets {
			for _, second := range stampSets {
				for _, third := range [][]uint64{nil, {0}, {4, 0}} {
					journeys++
					desc := fmt.Sprintf("flush journey: pages stamped %v flushed, then %v flushed, then %v flushed", first, second, third)
					r.prog.Set("shape", desc)
					path := filepath.Join(dir, fmt.Sprintf("journey%d", journeys))
					os.Remove(path)
					st, err := newFileStore(path, false)
					if err != nil {
						panic(lib.HarnessError{Msg: err.Error()})
					}
					st.nextFreeOffset = pageSize
					all := map[uint64]string{}
					problem := ""
					func() {
						defer func() {
							if x := recover(); x != nil {
								problem = fmt.Sprintf("panic: %v", x)
							}
						}()
						k := uint32(1)
						for round, stamps := range [][]uint64{first, second, third} {
							for i, lsn := range stamps {
								var n *btreeNode
								if (round+i)%2 == 0 {
									n = &btreeNode{isLeaf: true}
									for c := 0; c < i+round; c++ { // (the first page of the first round is an empty leaf: a new table's root)
										n.insertLeafCell(uint32(c), k, c12Value(10*c+1, k))
										k++
									}
								} else {
									n = c12Internal(i+1, k, 0, 0)
									n.dirty = false
									k += 8
								}
								if err := st.append(n); err != nil {
									problem = "append: " + err.Error()
									return
								}
								n.markDirty(lsn)
								if lsn >= st._nextLSN {
									st._nextLSN = lsn + 1 // (the store's LSN counter is always ahead of every stamp it has handed out)
								}
								all[n.fileOffset] = c12Logical(n)
							}
							if round == 1 && len(first) > 0 {
								// a page of the first round is changed again with a stamp of its own
								if old, err := st.fetch(pageSize); err == nil && old.isLeaf {
									old.insertLeafCell(uint32(len(old.offsets)), 90000+uint32(round), c12Value(33, 9))
									old.markDirty(second[0])
									if second[0] >= st._nextLSN {
										st._nextLSN = second[0] + 1
									}
									all[old.fileOffset] = c12Logical(old)
								}
							}
							if err := st.flushPages(); err != nil {
								problem = "flushPages: " + err.Error()
								return
							}
							for _, v := range st.cache.cache {
								if nd := v.Value.(*cacheEntry).val; nd.isDirty() {
									problem = fmt.Sprintf("page %d is still dirty after the flush of round %d", nd.fileOffset, round+1)
									return
								}
							}
							rd, err := newFileStore(path, false)
							if err != nil {
								panic(lib.HarnessError{Msg: err.Error()})
							}
							for off, want := range all {
								g, err := rd.fetch(off)
								if err != nil {
									problem = fmt.Sprintf("after the flush of round %d: fetch(%d): %v", round+1, off, err)
									break
								}
								if got := c12Logical(g); got != want {
									problem = fmt.Sprintf("after the flush of round %d page %d reads back as %s, the node flushed was %s", round+1, off, got, want)
									break
								}
							}
							rd.file.Close()
							if problem != "" {
								return
							}
						}
					}()
					st.file.Close()
					os.Remove(path)
					rep.AddCase(true, lib.HashString(desc), lib.HashString(problem))
					if problem != "" {
						rep.AddFailure(&lib.Failure{Kind: "flush-journey", Detail: desc + ": " + problem, Trace: []string{desc}})
					}
				}
			}
		}
		rep.Bounds["flush journeys"] = fmt.Sprintf("%d: three rounds of appended pages with stamps above / at / below those of earlier flushes (0 included), a page of the first round changed again; after each flush every page is read back through a second store", journeys)
	}
	// a page that has been written once and is then changed the way DELETE changes it (the cell's tombstone is set
	// directly, the page stamped again): the second image must show the change - on the original node and on a node
	// read back from its page
	for n := 1; n <= 4; n++ {
		for pos := 0; pos < n; pos++ {
			for _, size := range []int{0, 7, 400} {
				keys, sz, del := mk(n, 60)
				for i := range sz {
					sz[i] = size
				}
				l := &c12Leaf{keys: keys, sizes: sz, deleted: del, lsn: 4, off: 12288, hasR: true, rOff: 4096 * 11}
				orig := l.build()
				desc := fmt.Sprintf("leaf n=%d cells of %d bytes, written, then cell %d tombstoned", n, size, pos)
				r.check(desc+" (first image)", orig, true, true)
				buf, err := orig.encode()
				if err != nil {
					continue
				}
				back := &btreeNode{isLeaf: true}
				if err := back.decode(bytes.NewBuffer(append([]byte{}, buf.Bytes()...))); err != nil {
					continue
				}
				back.fileOffset = 12288
				for _, node := range []*btreeNode{orig, back} {
					off, found := node.findCellOffsetByKey(keys[pos])
					if !found {
						panic(lib.HarnessError{Msg: "findCellOffsetByKey lost a key"})
					}
					node.leafCells[off].deleted = true
					node.markDirty(5)
				}
				r.check(desc+" (second image, original node)", orig, true, true)
				r.check(desc+" (second image, node read back from its page)", back, true, true)
				// ... and un-deleted again by a row update of another cell next to it
				if n > 1 {
					other := keys[(pos+1)%n]
					if err := orig.updateCell(other, c12Value(size/2, 5)); err == nil {
						orig.markDirty(6)
						r.check(desc+", then the neighbouring cell rewritten", orig, true, true)
					}
				}
			}
		}
	}
	// a refused update (value over the limit) must leave the page exactly as it was
	for n := 1; n <= 4; n++ {
		for _, from := range []int{0, 2, 100, 400} {
			for pos := 0; pos < n; pos++ {
				for _, tooBig := range []int{401, 402, 1000, 5000} {
					keys, sz, del := mk(n, 20)
					for i := range sz {
						sz[i] = from
					}
					l := &c12Leaf{keys: keys, sizes: sz, deleted: del, lsn: 3, off: 8192}
					node := l.build()
					before := c12Logical(node)
					err := node.updateCell(keys[pos], c12Value(tooBig, 79))
					desc := fmt.Sprintf("leaf n=%d all cells %d bytes, update of cell %d to %d bytes", n, from, pos, tooBig)
					if err == nil {
						rep.AddFailure(&lib.Failure{Kind: "oversized-update-accepted", Detail: desc + " was accepted", Trace: []string{desc}})
						continue
					}
					if after := c12Logical(node); after != before {
						rep.AddFailure(&lib.Failure{Kind: "refused-update-changed-node", Detail: desc + " was refused but changed the node: " + after + " (before: " + before + ")", Trace: []string{desc}})
						continue
					}
					r.check(desc+" (refused)", node, true, true)
				}
			}
		}
	}
	rep.Bounds["updated leaves"] = "leaves of 1..4 cells, each cell rewritten by updateCell from every size to every size of the size set, once and twice"
	// --- internal nodes
	internalCounts := []int{0, 1, 2, 3, 144, 145, 289, maxInternalNodeCells}
	if env.Thorough() {
		internalCounts = internalCounts[:0]
		for n := 0; n <= maxInternalNodeCells; n++ {
			internalCounts = append(internalCounts, n)
		}
		rep.Bounds["internal cells"] = fmt.Sprintf("every count 0..%d and the halves of every split", maxInternalNodeCells)
	}
	for _, n := range internalCounts {
		for _, base := range keyBases {
			for li, lsn := range lsns {
				node := &btreeNode{fileOffset: fileOffs[li%3]}
				for i := 0; i < n; i++ {
					node.appendInternalCell(base+uint32(i), sibOffs[(i+li)%4]+uint64(i)*4096)
				}
				node.setRightMostKey(sibOffs[(n+li)%4])
				node.markDirty(lsn)
				r.check(fmt.Sprintf("internal n=%d base=%d lsn=%d", n, base, lsn), node, base == 1, n > 0)
				if n >= 3 && li == 0 {
					nr := &btreeNode{fileOffset: 4096 * 7}
					if _, err := node.split(nr); err != nil {
						panic(lib.HarnessError{Msg: err.Error()})
					}
					nr.markDirty(lsn)
					r.check(fmt.Sprintf("left half of split internal n=%d base=%d", n, base), node, base == 1, true)
					r.check(fmt.Sprintf("right half of split internal n=%d base=%d", n, base), nr, base == 1, true)
				}
			}
		}
	}
	// internal node with a cell inserted in the middle (insertInternalCell)
	midMax := 4
	if env.Thorough() {
		midMax = 40
	}
	for n := 2; n <= midMax; n++ {
		for pos := 0; pos < n; pos++ {
			node := &btreeNode{fileOffset: 4096}
			for i := 0; i < n; i++ {
				node.appendInternalCell(uint32(10*(i+1)), uint64(4096*(i+2)))
			}
			node.setRightMostKey(4096 * 50)
			node.insertInternalCell(uint32(pos), uint32(10*(pos+1)-5), 4096*60)
			node.markDirty(2)
			r.check(fmt.Sprintf("internal n=%d with middle insert at %d", n, pos), node, true, true)
		}
	}
	rep.Bounds["nodes enumerated (all shards)"] = r.count
	// the capacity constants really are what the page size allows
	if env.Shard == 0 {
		if maxLeafNodeCells*(offsetElemSize+leafNodeCellSize)+leafNodeHeaderSize > pageSize ||
			maxInternalNodeCells*(offsetElemSize+nodeCellSize)+internalNodeHeaderSize > pageSize {
			rep.AddFailure(&lib.Failure{Kind: "capacity", Detail: "capacity constants exceed the page size"})
		}
	}
}
