//go:build verif

package storage

// Controlled scheduler for C13 (comes from /verif). The session goroutine and
// the flusher goroutine(s) are serialised: exactly one of them runs between
// two hook points; at every yielding point the explorer decides who runs next.
// The scheduler keeps a model of the store's RWMutex so that a thread is only
// resumed when its next lock operation cannot block. An idle flusher's enabled
// action is "tick" (send on its fake ticker channel) while the budget lasts.

import (
	"bytes"
	"fmt"
	"runtime"
	"strconv"
	"sync"
	"time"
)

func verifGoid() int64 {
	var buf [64]byte
	n := runtime.Stack(buf[:], false)
	// "goroutine 123 [running]:..."
	f := bytes.Fields(buf[:n])
	if len(f) < 2 {
		return -1
	}
	id, _ := strconv.ParseInt(string(f[1]), 10, 64)
	return id
}

const (
	stRunning = iota
	stParked
	stIdle // flusher waiting for a tick
	stDone
)

type schedThread struct {
	id      int
	name    string
	goid    int64
	resume  chan struct{}
	state   int
	pending string
	store   *VerifStore // flusher threads
	pstore  *fileStore  // store of the pending lock operation
}

type schedEvent struct {
	t    *schedThread
	kind string // parked | idle | done
}

// VerifSchedEvent is one entry of the execution trace.
type VerifSchedEvent struct {
	Thread string
	Kind   string
}

// VerifSched is one scheduler instance (one execution).
type VerifSched struct {
	mu           sync.Mutex
	threads      []*schedThread
	byGoid       map[int64]*schedThread
	events       chan schedEvent
	choose       func(n int, label string, cost []int) int
	readers      map[*fileStore]int
	readerDepth  map[*fileStore]int // shared locks held by the session thread itself
	writer       map[*fileStore]*schedThread
	Trace        []VerifSchedEvent
	Problems     []string
	ProblemKinds []string
	ticks        int
	// statement window tracking (M2)
	stmtKind     string
	stmtOpen     bool // inside a statement
	changed      bool // the statement has changed shared state
	logged       bool // its log append (or, for CREATE TABLE, its own flush) has completed
	Preemptions  int
	TicksInside  int // ticks delivered while a statement was open
	Switches     int
	saved        [13]any
	boundaryNext bool
	BodyPanic    any // panic value that escaped the session body, if any
	// LocksOnly: scheduling points only at lock operations, the header write and statement boundaries (for
	// statements with thousands of row operations; the monitors still see every access and write)
	LocksOnly bool
	// LazyWindow: for statements that may end in an error without logging anything. A write inside the window is
	// held back and becomes a problem only if the statement goes on to append to the log afterwards (then pages
	// reached the data file before their log records); a statement that never logs has no log append to wait for.
	LazyWindow       bool
	heldBack         []string
	ownHeaderWritten bool
}

// VerifNewSched creates a scheduler; choose is the explorer's choice oracle.
func VerifNewSched(choose func(n int, label string, cost []int) int, tickBudget int) *VerifSched {
	return &VerifSched{byGoid: map[int64]*schedThread{}, events: make(chan schedEvent), choose: choose,
		readers: map[*fileStore]int{}, readerDepth: map[*fileStore]int{}, writer: map[*fileStore]*schedThread{}, ticks: tickBudget}
}

func (s *VerifSched) lookup() *schedThread {
	g := verifGoid()
	s.mu.Lock()
	t := s.byGoid[g]
	if t == nil {
		// a flusher goroutine that started late registered its id with the
		// store after the thread table was built: bind it now
		for _, th := range s.threads {
			if th.store != nil && th.goid == 0 {
				verifMu.Lock()
				sg := th.store.goid
				verifMu.Unlock()
				if sg == g {
					th.goid = g
					s.byGoid[g] = th
					t = th
				}
			}
		}
	}
	s.mu.Unlock()
	return t
}

func (s *VerifSched) problem(kind, format string, a ...any) {
	if len(s.Problems) < 6 {
		s.Problems = append(s.Problems, fmt.Sprintf(format, a...))
		s.ProblemKinds = append(s.ProblemKinds, kind)
	}
}

func (s *VerifSched) record(t *schedThread, kind string) {
	if len(s.Trace) < 4000 {
		s.Trace = append(s.Trace, VerifSchedEvent{t.name, kind})
	}
}

// holds reports whether thread t holds f's lock (any mode for the session,
// exclusive for a flusher).
func (s *VerifSched) holds(t *schedThread, f *fileStore) bool {
	if s.writer[f] == t {
		return true
	}
	if t.store == nil && s.readers[f] > 0 { // the session is the only reader
		return true
	}
	return false
}

// access is a shared-state access event (M1) and part of the statement window (M2).
func (s *VerifSched) access(t *schedThread, f *fileStore, kind string, change bool) {
	if f == nil {
		// markDirty carries no store: use the thread's flusher store, or the only open one
		if t.store != nil {
			f = t.store.fs
		} else {
			for _, th := range s.threads {
				if th.store != nil {
					f = th.store.fs
				}
			}
		}
	}
	if f != nil && !s.holds(t, f) {
		s.problem("unsynchronised-access", "%s: %s by %s without holding the store lock (statement: %s)", "unsynchronised access", kind, t.name, s.stmtKind)
	}
	if change && t.store == nil && s.stmtOpen && s.ownHeaderWritten {
		s.ownHeaderWritten = false
		s.problem("write-inside-statement", "file header written by %s in the middle of the statement: it changed shared state again afterwards (%s, statement: %s)", t.name, kind, s.stmtKind)
	}
	if change && t.store == nil && s.stmtOpen && !s.changed {
		s.changed = true
		s.record(t, "first-change")
	}
}

// write is a page/header write event.
func (s *VerifSched) write(t *schedThread, kind string) {
	if s.stmtOpen && s.changed && !s.logged {
		isOwnFlush := t.store == nil && s.stmtKind == "create"
		if !isOwnFlush {
			msg := fmt.Sprintf("%s written by %s between the statement's first change and the completion of its log append (statement: %s)", kind, t.name, s.stmtKind)
			if s.LazyWindow && t.store != nil {
				// (the flusher may get the lock between the refused statement's return and the end of its
				// bracket; a write by the statement's own thread is inside the statement whatever follows)
				s.heldBack = append(s.heldBack, msg)
			} else {
				s.problem("write-inside-statement", "%s", msg)
			}
		}
	}
}

// yield parks the calling thread until the scheduler resumes it.
func (s *VerifSched) yield(t *schedThread, f *fileStore, kind string) {
	t.pending, t.pstore = kind, f
	s.events <- schedEvent{t, "parked"}
	<-t.resume
}

func (s *VerifSched) attach() {
	s.saved = [13]any{vhIsFull, vhStoreCreated, vhTickerCreated, vhFlusherStart, vhTickDone, vhPoint, vhPageWrite, vhHeaderWrite, vhFetch, vhMarkDirty, vhWalWrite, vhWalSync, vhWalFlushEnd}
	prevTicker, prevFlusherStart := vhTickerCreated, vhFlusherStart
	prevPage, prevHeader, prevFetch := vhPageWrite, vhHeaderWrite, vhFetch
	prevWal, prevSync, prevEnd := vhWalWrite, vhWalSync, vhWalFlushEnd
	vhTickerCreated = func(f *fileStore) {
		prevTicker(f)
		if st := verifStoreOf(f); st != nil && st.ch != nil {
			s.addFlusher(st)
		}
	}
	vhFlusherStart = func(f *fileStore) {
		if prevFlusherStart != nil {
			prevFlusherStart(f)
		}
		s.mu.Lock()
		for _, t := range s.threads {
			if t.store != nil && t.store.fs == f {
				t.goid = verifGoid()
				s.byGoid[t.goid] = t
			}
		}
		s.mu.Unlock()
	}
	vhTickDone = func(f *fileStore, err error) {
		if t := s.lookup(); t != nil {
			t.state = stIdle
			s.events <- schedEvent{t, "idle"}
			return
		}
	}
	vhPoint = func(f *fileStore, kind string) {
		t := s.lookup()
		if t == nil {
			return
		}
		s.record(t, kind)
		switch kind {
		case "rlock", "lock":
			if kind == "rlock" && t.store == nil && s.readerDepth[f] > 0 {
				s.problem("recursive-read-lock", "%s asks for the shared store lock while already holding it (statement: %s): the request blocks for ever as soon as the flusher asks for the exclusive lock in between", t.name, s.stmtKind)
			}
			s.yield(t, f, kind)
		case "runlock", "unlock":
			s.yield(t, f, kind)
		case "flushStart":
			if t.store == nil && s.stmtKind == "create" {
				s.logged = true // CREATE TABLE's own final flush is its completion
			}
		case "append", "incrementLastKey", "incrLSN", "setPageTableRoot":
			s.access(t, f, kind, true)
			if !s.LocksOnly {
				s.yield(t, f, kind)
			}
		case "setCache":
			s.access(t, f, kind, false)
			// no yield between the page writes of one flush: their number and
			// order follow Go map iteration order, which the explorer does not own
			if s.writer[f] != t && !s.LocksOnly {
				s.yield(t, f, kind)
			}
		}
	}
	vhFetch = func(f *fileStore, off uint64) {
		if prevFetch != nil {
			prevFetch(f, off)
		}
		if t := s.lookup(); t != nil {
			s.access(t, f, "fetch", false)
		}
	}
	vhMarkDirty = func(n *btreeNode, lsn uint64) {
		if t := s.lookup(); t != nil {
			s.record(t, "markDirty")
			s.access(t, nil, "markDirty", true)
		}
	}
	vhPageWrite = func(f *fileStore, off uint64, data []byte) {
		if prevPage != nil {
			prevPage(f, off, data)
		}
		if t := s.lookup(); t != nil {
			s.record(t, fmt.Sprintf("pageWrite@%d", off))
			s.access(t, f, "page write", false)
			s.write(t, fmt.Sprintf("page %d", off))
		}
	}
	vhHeaderWrite = func(f *fileStore, data []byte) {
		if prevHeader != nil {
			prevHeader(f, data)
		}
		if t := s.lookup(); t != nil {
			s.record(t, "headerWrite")
			s.access(t, f, "header write", false)
			s.write(t, "file header")
			if t.store == nil && s.stmtOpen {
				s.ownHeaderWritten = true // (a statement's own flush ends with the header: nothing may change after it)
			}
			s.yield(t, f, "headerWrite")
		}
	}
	vhWalWrite = func(w *wal, data []byte) {
		if prevWal != nil {
			prevWal(w, data)
		}
		if t := s.lookup(); t != nil {
			s.record(t, "walWrite")
			if t.store == nil && s.stmtOpen {
				for _, msg := range s.heldBack {
					s.problem("write-inside-statement", "%s", msg)
				}
				s.heldBack = nil
				s.ownHeaderWritten = false
			}
			if !s.LocksOnly {
				s.yield(t, nil, "walWrite")
			}
		}
	}
	vhWalSync = func(w *wal) {
		if prevSync != nil {
			prevSync(w)
		}
		if t := s.lookup(); t != nil {
			s.record(t, "walSync")
			if !s.LocksOnly {
				s.yield(t, nil, "walSync")
			}
		}
	}
	vhWalFlushEnd = func(w *wal, n int) {
		if prevEnd != nil {
			prevEnd(w, n)
		}
		if t := s.lookup(); t != nil {
			s.record(t, "walEnd")
			s.logged = true
		}
	}
}

func (s *VerifSched) detach() {
	v := s.saved
	vhIsFull, _ = v[0].(func(n *btreeNode) (bool, bool))
	vhStoreCreated, _ = v[1].(func(f *fileStore))
	vhTickerCreated, _ = v[2].(func(f *fileStore))
	vhFlusherStart, _ = v[3].(func(f *fileStore))
	vhTickDone, _ = v[4].(func(f *fileStore, err error))
	vhPoint, _ = v[5].(func(f *fileStore, kind string))
	vhPageWrite, _ = v[6].(func(f *fileStore, off uint64, data []byte))
	vhHeaderWrite, _ = v[7].(func(f *fileStore, data []byte))
	vhFetch, _ = v[8].(func(f *fileStore, off uint64))
	vhMarkDirty, _ = v[9].(func(n *btreeNode, lsn uint64))
	vhWalWrite, _ = v[10].(func(w *wal, data []byte))
	vhWalSync, _ = v[11].(func(w *wal))
	vhWalFlushEnd, _ = v[12].(func(w *wal, n int))
}

func (s *VerifSched) addFlusher(st *VerifStore) {
	verifMu.Lock()
	g := st.goid
	verifMu.Unlock()
	s.mu.Lock()
	t := &schedThread{id: len(s.threads), name: fmt.Sprintf("flusher%d", len(s.threads)), resume: make(chan struct{}), state: stIdle, store: st, goid: g}
	s.threads = append(s.threads, t)
	if t.goid != 0 {
		s.byGoid[t.goid] = t
	}
	s.mu.Unlock()
}

// StatementBegin / StatementEnd bracket one statement of the session thread
// (called by the session body). kind: create | insert | update | delete | select.
// Both are scheduling points where a switch is free (statement boundary).
func (s *VerifSched) StatementBegin(kind string) {
	t := s.lookup()
	if t == nil {
		return
	}
	s.boundary(t, "stmt-begin:"+kind)
	s.stmtKind, s.stmtOpen, s.changed, s.logged = kind, true, false, false
	s.ownHeaderWritten = false // (the header an earlier statement's own flush ended with is behind a statement boundary)
	s.heldBack = nil
}

// StatementReturned is called right after a statement has returned without an error: if it changed shared
// state and logs its changes (INSERT, UPDATE, DELETE), its log append must be complete by now.
func (s *VerifSched) StatementReturned() {
	if s.stmtOpen && s.changed && !s.logged && (s.stmtKind == "insert" || s.stmtKind == "update" || s.stmtKind == "delete") {
		s.problem("returned-before-logged", "the statement (%s) returned while its log append had not completed: its changes can reach the data file, and be lost from it, ahead of their log records", s.stmtKind)
	}
}

func (s *VerifSched) StatementEnd() {
	t := s.lookup()
	if t == nil {
		return
	}
	s.stmtOpen = false
	s.boundary(t, "stmt-end")
}

func (s *VerifSched) boundary(t *schedThread, kind string) {
	s.record(t, kind)
	s.boundaryNext = true
	s.yield(t, nil, kind)
}

// lockEnabled: can thread t perform its pending operation without blocking?
func (s *VerifSched) lockEnabled(t *schedThread) bool {
	switch t.pending {
	case "rlock":
		return s.writer[t.pstore] == nil
	case "lock":
		return s.writer[t.pstore] == nil && s.readers[t.pstore] == 0
	}
	return true
}

func (s *VerifSched) applyResume(t *schedThread) {
	switch t.pending {
	case "rlock":
		s.readers[t.pstore]++
		if t.store == nil {
			s.readerDepth[t.pstore]++
		}
	case "runlock":
		if t.store == nil && s.readerDepth[t.pstore] > 0 {
			s.readerDepth[t.pstore]--
		}
		s.readers[t.pstore]--
		if s.readers[t.pstore] < 0 {
			s.problem("lock-model", "RUnlock without RLock by %s", t.name)
			s.readers[t.pstore] = 0
		}
	case "lock":
		s.writer[t.pstore] = t
	case "unlock":
		if s.writer[t.pstore] != t {
			s.problem("lock-model", "Unlock by %s which does not hold the exclusive lock", t.name)
		}
		delete(s.writer, t.pstore)
	}
}

// Run executes body as the session thread under the scheduler and returns
// when the session has finished and every flusher is idle again.
func (s *VerifSched) Run(body func()) (deadlock bool) {
	s.attach()
	defer s.detach()
	for _, st := range VerifStores() {
		if st.Flusher && !st.Dead && st.ch != nil {
			if _, err := st.fs.file.Stat(); err != nil {
				st.Dead = true // closed by the code under test: its goroutine is gone
				continue
			}
			s.addFlusher(st)
		}
	}
	t0 := &schedThread{id: len(s.threads), name: "session", resume: make(chan struct{}), state: stRunning}
	s.mu.Lock()
	s.threads = append(s.threads, t0)
	s.mu.Unlock()
	go func() {
		t0.goid = verifGoid()
		s.mu.Lock()
		s.byGoid[t0.goid] = t0
		s.mu.Unlock()
		defer func() {
			if x := recover(); x != nil {
				s.BodyPanic = x
			}
			t0.state = stDone
			s.events <- schedEvent{t0, "done"}
		}()
		body()
	}()
	running := t0
	for {
		var ev schedEvent
		select {
		case ev = <-s.events:
		case <-time.After(20 * time.Second):
			buf := make([]byte, 1<<16)
			n := runtime.Stack(buf, true)
			panic(fmt.Sprintf("verif scheduler: the running thread %s did not reach a hook point within 20s (blocked outside the scheduler's view); threads: %s\n%s", running.name, s.describe(), buf[:n]))
		}
		if ev.t != running {
			panic(fmt.Sprintf("verif scheduler: event from %s while %s is running", ev.t.name, running.name))
		}
		switch ev.kind {
		case "parked":
			ev.t.state = stParked
		case "idle":
			ev.t.state = stIdle
		case "done":
			ev.t.state = stDone
		}
		atBoundary := s.boundaryNext
		s.boundaryNext = false
		// enabled threads, running first
		var enabled []*schedThread
		if running.state == stParked && s.lockEnabled(running) {
			enabled = append(enabled, running)
		}
		for _, t := range s.threads {
			if t == running {
				continue
			}
			switch {
			case t.state == stParked && s.lockEnabled(t):
				enabled = append(enabled, t)
			case t.state == stIdle && t.store != nil && s.ticks > 0 && t0.state != stDone && !t.store.Dead:
				enabled = append(enabled, t)
			}
		}
		if len(enabled) == 0 {
			unfinished := false
			for _, t := range s.threads {
				if t.state == stParked {
					unfinished = true
				}
			}
			if unfinished {
				s.problem("deadlock", "deadlock: no thread can make progress (%s)", s.describe())
				return true
			}
			return false
		}
		idx := 0
		if len(enabled) > 1 {
			var cost []int
			if enabled[0] == running && !atBoundary {
				cost = make([]int, len(enabled))
				for i := 1; i < len(cost); i++ {
					cost[i] = 1
				}
			}
			idx = s.choose(len(enabled), "sched@"+running.name+":"+running.pending, cost)
			if cost != nil && idx > 0 {
				s.Preemptions++
			}
		}
		next := enabled[idx]
		if next != running {
			s.Switches++
		}
		if next.state == stIdle {
			// deliver a tick
			s.ticks--
			if s.stmtOpen {
				s.TicksInside++
			}
			s.record(next, "TICK")
			next.state = stRunning
			running = next
			select {
			case next.store.ch <- time.Time{}:
			case <-time.After(60 * time.Second):
				panic("verif scheduler: flusher did not take the tick")
			}
			continue
		}
		s.applyResume(next)
		next.state = stRunning
		running = next
		next.resume <- struct{}{}
	}
}

func (s *VerifSched) describe() string {
	out := ""
	for _, t := range s.threads {
		out += fmt.Sprintf("%s:%d@%s(goid %d) ", t.name, t.state, t.pending, t.goid)
	}
	return out
}
