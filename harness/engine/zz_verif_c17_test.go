package engine

import (
	"fmt"
	"os"
	"sort"
	"strings"

	"github.com/mk6i/mkdb/storage"
	"verif/lib"
)

// C17 — databases are isolated and survive any USE / restart pattern.
// Bounded exhaustive search over event histories of one session:
// CREATE DATABASE a|b (also when it exists), USE a|b|missing (also the current
// one), CREATE TABLE, INSERT, SHOW DATABASES, TICK of every store that was ever
// opened and is still alive (including stores abandoned by an earlier USE),
// RESTART. Oracle: a model per database; after every event the selected
// database reads back what was acknowledged, failed statements change nothing
// and leave the session usable, SHOW lists exactly the created names; every
// history ends with a restart after which every database is read back and
// accepts a new row.

func init() { verifChecks["C17"] = runC17 }

type c17DB struct {
	extras   int // further tables u1..un created in this database
	hasTable bool
	rows     []string
	as       []int // the value of column a of each row (insertion order)
	ids      map[uint32]bool
}

type c17World struct {
	c     *lib.Ctx
	dir   string
	sess  *Session
	dbs   map[string]*c17DB
	cur   string
	seq   int
	known map[string]lib.KnownEntry
	// input facts for the known-finding predicates
	failedUse    bool
	useWhileOpen bool
	restarts     int
}

func (w *c17World) exec(q string) error {
	storage.VerifSetFuel(worldFuel)
	err := guard(func() error { return w.sess.ExecQuery(q) })
	storage.VerifSetFuel(-1)
	return err
}

func (w *c17World) liveStores() []*storage.VerifStore {
	var out []*storage.VerifStore
	for _, s := range storage.VerifStores() {
		if s.Flusher && !s.Dead && s.Alive() {
			out = append(out, s)
		}
	}
	return out
}

func (w *c17World) killAll() {
	if w.sess != nil && w.sess.RelationService != nil {
		rs := w.sess.RelationService
		if err := guard(func() error { return w.sess.Close() }); err != nil {
			w.fail("close-failed", "Session.Close: %v", err)
		}
		storage.VerifMarkClosed(rs)
	}
	for _, s := range storage.VerifStores() {
		if s.Flusher && !s.Dead {
			func() {
				defer func() { recover() }()
				s.AbandonStore()
			}()
		}
	}
	storage.VerifForgetStores()
}

func (w *c17World) fail(kind, format string, a ...any) {
	w.c.Fail(kind, format, a...)
}

// kill: the process dies without closing anything (no flush); the next process runs the start-up recovery.
func (w *c17World) kill() bool {
	w.c.Logf("KILL (process dies without closing its session, InitStorage, new session)")
	if w.sess != nil && w.sess.RelationService != nil {
		func() {
			defer func() { recover() }()
			storage.VerifAbandon(w.sess.RelationService)
		}()
	}
	for _, s := range storage.VerifStores() {
		if s.Flusher && !s.Dead {
			func() {
				defer func() { recover() }()
				s.AbandonStore()
			}()
		}
	}
	storage.VerifForgetStores()
	storage.VerifSetFuel(worldFuel * 4)
	err := guard(storage.InitStorage)
	storage.VerifSetFuel(-1)
	storage.VerifForgetStores()
	if err != nil {
		w.fail("recovery-failed", "InitStorage after the process was killed: %v", err)
		return false
	}
	w.sess = &Session{}
	w.cur = ""
	w.restarts++
	return true
}

func (w *c17World) restart() bool {
	w.c.Logf("RESTART (session closed, process exits, InitStorage, new session)")
	w.killAll()
	if w.c.Failed() {
		return false
	}
	storage.VerifSetFuel(worldFuel * 4)
	err := guard(storage.InitStorage)
	storage.VerifSetFuel(-1)
	storage.VerifForgetStores()
	if err != nil {
		w.fail("recovery-failed", "InitStorage: %v", err)
		return false
	}
	w.sess = &Session{}
	w.cur = ""
	w.restarts++
	return true
}

// checkCur reads the selected database back.
func (w *c17World) checkCur(when string) bool {
	if w.cur == "" {
		return true
	}
	db := w.dbs[w.cur]
	for i := 1; i <= db.extras; i++ {
		sel, _ := parseSelect(fmt.Sprintf("SELECT * FROM u%d", i))
		var rows []*storage.Row
		storage.VerifSetFuel(worldFuel)
		err := guard(func() error {
			var e error
			rows, _, e = EvaluateSelect(sel, w.sess.RelationService)
			return e
		})
		storage.VerifSetFuel(-1)
		if err != nil || len(rows) != 0 {
			w.fail("contents", "%s: database %s table u%d (created empty): %d rows, error %v", when, w.cur, i, len(rows), err)
			return false
		}
	}
	// tables that exist only in other databases are not visible from this one: the SELECT is refused and the
	// session stays usable (the store is left unlocked)
	absent := map[string]bool{}
	for _, other := range w.dbs {
		for i := db.extras + 1; i <= other.extras; i++ {
			absent[fmt.Sprintf("u%d", i)] = true
		}
		if other.hasTable && !db.hasTable {
			absent["t"] = true
		}
	}
	for _, name := range lib.SortedKeys(absent) {
		sel, _ := parseSelect("SELECT * FROM " + name)
		var rows []*storage.Row
		storage.VerifSetFuel(worldFuel)
		err := guard(func() error {
			var e error
			rows, _, e = EvaluateSelect(sel, w.sess.RelationService)
			return e
		})
		storage.VerifSetFuel(-1)
		if pe, ok := err.(*panicErr); ok {
			w.fail("panic", "%s: SELECT * FROM %s in database %s: %v\n%s", when, name, w.cur, pe.val, trimStack(pe.stack))
			return false
		}
		if err == nil {
			w.fail("contents", "%s: database %s answers SELECT * FROM %s with %d rows, but that table was only ever created in another database", when, w.cur, name, len(rows))
			return false
		}
		if !storage.VerifLockFree(w.sess.RelationService) {
			w.fail("store-left-locked", "%s: after the refused SELECT * FROM %s in database %s the store's lock is still held: the next flush, CREATE TABLE, USE or shutdown blocks forever", when, name, w.cur)
			// closing this store would block as well: drop it the way a dying process does
			storage.VerifAbandon(w.sess.RelationService)
			w.sess.RelationService = nil
			return false
		}
	}
	if !db.hasTable {
		return true
	}
	sel, _ := parseSelect("SELECT * FROM t")
	var rows []*storage.Row
	storage.VerifSetFuel(worldFuel)
	err := guard(func() error {
		var e error
		rows, _, e = EvaluateSelect(sel, w.sess.RelationService)
		return e
	})
	storage.VerifSetFuel(-1)
	if err != nil {
		if pe, ok := err.(*panicErr); ok {
			w.fail("panic", "%s: SELECT in database %s: %v\n%s", when, w.cur, pe.val, trimStack(pe.stack))
		} else {
			w.fail("select-failed", "%s: SELECT * FROM t in database %s: %v", when, w.cur, err)
		}
		return false
	}
	var got []string
	seen := map[uint32]bool{}
	valCol := 1
	if w.cur == "b" {
		valCol = 0
	}
	for _, r := range rows {
		if len(r.Vals) != 2 {
			w.fail("contents", "%s: database %s table t has rows of %d columns", when, w.cur, len(r.Vals))
			return false
		}
		got = append(got, fmt.Sprint(r.Vals[valCol]))
		if seen[r.RowID] {
			w.fail("row-ids", "%s: row id %d twice in database %s", when, r.RowID, w.cur)
			return false
		}
		seen[r.RowID] = true
	}
	if strings.Join(got, ",") != strings.Join(db.rows, ",") {
		w.fail("contents", "%s: database %s table t holds [%s], acknowledged [%s]", when, w.cur, strings.Join(got, ","), strings.Join(db.rows, ","))
		return false
	}
	return true
}

func (w *c17World) checkShow(when string) bool {
	var rows []*storage.Row
	err := guard(func() error {
		var e error
		rows, _, e = storage.ShowDB()
		return e
	})
	if err != nil {
		w.fail("show-failed", "%s: SHOW DATABASES: %v", when, err)
		return false
	}
	var got, want []string
	for _, r := range rows {
		got = append(got, fmt.Sprint(r.Vals[0]))
	}
	for n := range w.dbs {
		want = append(want, n)
	}
	sort.Strings(got)
	sort.Strings(want)
	if strings.Join(got, ",") != strings.Join(want, ",") {
		w.fail("show", "%s: SHOW DATABASES lists %v, created %v", when, got, want)
		return false
	}
	return true
}

type c17Event struct {
	name string
	run  func(w *c17World) bool
}

func (w *c17World) events() []c17Event {
	var ev []c17Event
	mkCreateDB := func(spelling string) c17Event {
		n := strings.ToLower(spelling) // database names are case-insensitive (one directory per lower-cased name)
		return c17Event{"CREATE DATABASE " + spelling, func(w *c17World) bool {
			err := w.exec("CREATE DATABASE " + spelling)
			_, exists := w.dbs[n]
			if pe, ok := err.(*panicErr); ok {
				w.fail("panic", "CREATE DATABASE %s: %v", n, pe.val)
				return false
			}
			if exists && err == nil {
				w.fail("duplicate-accepted", "CREATE DATABASE %s succeeded although it exists", n)
				return false
			}
			if !exists && err != nil {
				w.fail("statement-failed", "CREATE DATABASE %s: %v", n, err)
				return false
			}
			if !exists {
				w.dbs[n] = &c17DB{ids: map[uint32]bool{}}
			}
			return true
		}}
	}
	mkUse := func(spelling string) c17Event {
		n := strings.ToLower(spelling)
		return c17Event{"USE " + spelling, func(w *c17World) bool {
			if w.sess.RelationService != nil {
				w.useWhileOpen = true
			}
			err := w.exec("USE " + spelling)
			_, exists := w.dbs[n]
			if pe, ok := err.(*panicErr); ok {
				w.fail("panic", "USE %s: %v", n, pe.val)
				return false
			}
			if exists && err != nil {
				w.fail("statement-failed", "USE %s: %v", n, err)
				return false
			}
			if !exists {
				w.failedUse = true
				if err == nil {
					w.fail("missing-accepted", "USE %s succeeded although no such database exists", n)
					return false
				}
				return true // cur unchanged; the next events show whether the session is still usable
			}
			w.cur = n
			return true
		}}
	}
	ev = append(ev, mkCreateDB("a"), mkCreateDB("B"), mkUse("a"), mkUse("b"), mkUse("nosuch"), mkUse("A"), mkUse("B"))
	ev = append(ev, c17Event{"CREATE TABLE t", func(w *c17World) bool {
		// the two databases give their table t different column orders: a schema is a property of (database, table)
		ddl := "CREATE TABLE t (a int, c varchar(255))"
		if w.cur == "b" {
			ddl = "CREATE TABLE t (c varchar(255), a int)"
		}
		err := w.exec(ddl)
		if pe, ok := err.(*panicErr); ok {
			w.fail("panic", "CREATE TABLE t with database %q selected: %v\n%s", w.cur, pe.val, trimStack(pe.stack))
			return false
		}
		switch {
		case w.cur == "":
			if err == nil {
				w.fail("no-db-accepted", "CREATE TABLE succeeded with no database selected")
				return false
			}
		case w.dbs[w.cur].hasTable:
			if err == nil {
				w.fail("duplicate-accepted", "CREATE TABLE t succeeded twice in database %s", w.cur)
				return false
			}
		default:
			if err != nil {
				w.fail("statement-failed", "CREATE TABLE t in database %s: %v", w.cur, err)
				return false
			}
			w.dbs[w.cur].hasTable = true
		}
		return true
	}})
	ev = append(ev, c17Event{"CREATE TABLE u<next>", func(w *c17World) bool {
		n := 1
		if w.cur != "" {
			n = w.dbs[w.cur].extras + 1
		}
		q := fmt.Sprintf("CREATE TABLE u%d (k int)", n)
		err := w.exec(q)
		if pe, ok := err.(*panicErr); ok {
			w.fail("panic", "%s with database %q selected: %v\n%s", q, w.cur, pe.val, trimStack(pe.stack))
			return false
		}
		if w.cur == "" {
			if err == nil {
				w.fail("no-db-accepted", "CREATE TABLE succeeded with no database selected")
				return false
			}
			return true
		}
		if err != nil {
			w.fail("statement-failed", "%s in database %s: %v", q, w.cur, err)
			return false
		}
		w.dbs[w.cur].extras = n
		return true
	}})
	ev = append(ev, c17Event{"INSERT", func(w *c17World) bool {
		w.seq++
		val := fmt.Sprintf("%s-%d", w.cur, w.seq)
		q := fmt.Sprintf("INSERT INTO t VALUES (%d, '%s')", w.seq, val)
		if w.cur == "b" {
			q = fmt.Sprintf("INSERT INTO t VALUES ('%s', %d)", val, w.seq)
		}
		err := w.exec(q)
		if pe, ok := err.(*panicErr); ok {
			w.fail("panic", "INSERT with database %q selected: %v\n%s", w.cur, pe.val, trimStack(pe.stack))
			return false
		}
		if w.cur == "" || !w.dbs[w.cur].hasTable {
			if err == nil {
				w.fail("bad-insert-accepted", "INSERT succeeded with database %q selected and no table t", w.cur)
				return false
			}
			return true
		}
		if err != nil {
			w.fail("statement-failed", "INSERT in database %s: %v", w.cur, err)
			return false
		}
		w.dbs[w.cur].rows = append(w.dbs[w.cur].rows, val)
		w.dbs[w.cur].as = append(w.dbs[w.cur].as, w.seq)
		return true
	}})
	ev = append(ev, c17Event{"UPDATE", func(w *c17World) bool {
		w.seq++
		err := w.exec(fmt.Sprintf("UPDATE t SET c = 'upd-%d'", w.seq))
		if pe, ok := err.(*panicErr); ok {
			w.fail("panic", "UPDATE with database %q selected: %v\n%s", w.cur, pe.val, trimStack(pe.stack))
			return false
		}
		if w.cur == "" || !w.dbs[w.cur].hasTable {
			if err == nil {
				w.fail("bad-update-accepted", "UPDATE succeeded with database %q selected and no table t", w.cur)
				return false
			}
			return true
		}
		if err != nil {
			w.fail("statement-failed", "UPDATE in database %s: %v", w.cur, err)
			return false
		}
		for i := range w.dbs[w.cur].rows {
			w.dbs[w.cur].rows[i] = fmt.Sprintf("upd-%d", w.seq)
		}
		return true
	}})
	ev = append(ev, c17Event{"UPDATE last row", func(w *c17World) bool {
		if w.cur == "" || !w.dbs[w.cur].hasTable || len(w.dbs[w.cur].rows) == 0 {
			return true
		}
		db := w.dbs[w.cur]
		w.seq++
		val := fmt.Sprintf("last-%d", w.seq)
		err := w.exec(fmt.Sprintf("UPDATE t SET c = '%s' WHERE a = %d", val, db.as[len(db.as)-1]))
		if err != nil {
			if pe, ok := err.(*panicErr); ok {
				w.fail("panic", "UPDATE of the last row with database %q selected: %v\n%s", w.cur, pe.val, trimStack(pe.stack))
			} else {
				w.fail("statement-failed", "UPDATE of the last row in database %s: %v", w.cur, err)
			}
			return false
		}
		db.rows[len(db.rows)-1] = val
		return true
	}})
	ev = append(ev, c17Event{"DELETE last row", func(w *c17World) bool {
		if w.cur == "" || !w.dbs[w.cur].hasTable || len(w.dbs[w.cur].rows) == 0 {
			return true
		}
		db := w.dbs[w.cur]
		err := w.exec(fmt.Sprintf("DELETE FROM t WHERE a = %d", db.as[len(db.as)-1]))
		if err != nil {
			if pe, ok := err.(*panicErr); ok {
				w.fail("panic", "DELETE of the last row with database %q selected: %v\n%s", w.cur, pe.val, trimStack(pe.stack))
			} else {
				w.fail("statement-failed", "DELETE of the last row in database %s: %v", w.cur, err)
			}
			return false
		}
		db.rows, db.as = db.rows[:len(db.rows)-1], db.as[:len(db.as)-1]
		return true
	}})
	for i, s := range w.liveStores() {
		st := s
		ev = append(ev, c17Event{fmt.Sprintf("TICK store#%d (%s)", i, st.Path), func(w *c17World) bool {
			var terr error
			if perr := guard(func() error { terr = st.Tick(); return nil }); perr != nil {
				w.fail("flush-panic", "timer flush of %s: %v", st.Path, perr)
				return false
			}
			if terr != nil {
				w.fail("flush-failed", "timer flush of %s: %v", st.Path, terr)
				return false
			}
			return true
		}})
	}
	ev = append(ev, c17Event{"RESTART", func(w *c17World) bool { return w.restart() }})
	ev = append(ev, c17Event{"KILL", func(w *c17World) bool { return w.kill() }})
	return ev
}

func runC17(env *lib.Env, rep *lib.Report) {
	depth := 4
	if env.Thorough() {
		depth = 6
	}
	// ("journeys/leaf3-int3": the journeys at node capacity 3 - the 12-row table has three levels, and the inserts of a
	// journey split interior pages)
	seeds := []string{"empty", "a-with-row+b", "a-with-12-rows+b", "journeys", "journeys-7-tables", "a-with-long-log+b", "journeys/leaf3-int3"}
	rep.Bounds["depth"] = fmt.Sprintf("quick: 4 from the one-row seed and from the empty directory, 3 from the flushed 12-row seed, 2 from the seed with a long log (130 single-row statements); thorough: 6 / 5 / 4 / 4 (this run: tier depth %d)", depth)
	rep.Bounds["seeds"] = seeds
	rep.Bounds["journeys"] = "from the flushed 12-row seed and from a flushed seed with seven tables (t holding 8 rows): every sequence of 5 (thorough 6) steps over {TICK, UPDATE all rows, UPDATE last row, INSERT, USE b + USE a, USE a, RESTART + USE a}"
	rep.Bounds["events"] = "CREATE DATABASE a|B, USE a|b|A|B|nosuch (names are case-insensitive), CREATE TABLE t, CREATE TABLE u1/u2/.. (the next unused name), INSERT, UPDATE (all rows), UPDATE / DELETE of the newest row, TICK of every live store (including abandoned ones), RESTART (clean shutdown first), KILL (the process dies without closing anything, then restart); SHOW DATABASES and read-back are checked after every event; the read-back also probes every table name that exists only in another database (must be refused, the store left unlocked)"
	known := env.OpenKnown()
	explore(env, rep, 0, func(c *lib.Ctx) {
		if worldHome == "" {
			worldHome, _ = os.Getwd()
		}
		seed := seeds[c.Choose(len(seeds), "seed")]
		w := &c17World{c: c, dbs: map[string]*c17DB{}, known: known}
		storage.VerifInstall(true, 0, 0, 0)
		if seed == "journeys/leaf3-int3" {
			storage.VerifInstall(true, 3, 3, 0)
			seed = "journeys"
		}
		w.dir = worldScratch()
		os.Chdir(w.dir)
		defer func() {
			func() {
				defer func() { recover() }()
				w.killAll()
			}()
			os.Chdir(worldHome)
			os.RemoveAll(w.dir)
		}()
		if err := guard(storage.InitStorage); err != nil {
			panic(lib.HarnessError{Msg: "InitStorage: " + err.Error()})
		}
		w.sess = &Session{}
		c.Logf("seed %s", seed)
		if seed != "empty" {
			script := []string{"CREATE DATABASE a", "CREATE DATABASE B", "USE a", "CREATE TABLE t", "INSERT"}
			if seed == "journeys-7-tables" {
				// a page table of two levels (seven user tables), table t one row short of its first split
				for i := 0; i < 6; i++ {
					script = append(script, "CREATE TABLE u<next>")
				}
				for i := 0; i < 7; i++ {
					script = append(script, "INSERT")
				}
			}
			if seed == "a-with-long-log+b" {
				// 130 single-row statements: the log of database a is longer than any buffer a reader is likely to
				// use (4 KiB, 8 KiB with the updates that follow); every restart reads all of it, for every database
				for i := 0; i < 129; i++ {
					script = append(script, "INSERT")
				}
			}
			if seed == "a-with-12-rows+b" || seed == "journeys" {
				// a table whose root is no longer a leaf
				for i := 0; i < 11; i++ {
					script = append(script, "INSERT")
				}
			}
			for _, name := range script {
				for _, e := range w.events() {
					if e.name == name {
						c.Logf("%s", e.name)
						if !e.run(w) {
							return
						}
					}
				}
			}
			if seed == "a-with-12-rows+b" || seed == "journeys" || seed == "journeys-7-tables" {
				// flushed: every page of the table is clean, so later changes must dirty exactly the pages they touch
				for _, e := range w.events() {
					if strings.HasPrefix(e.name, "TICK store#0") {
						c.Logf("%s", e.name)
						if !e.run(w) {
							return
						}
					}
				}
			}
			// the seed's USE happened on a fresh session: not an input for the findings' predicates
			w.useWhileOpen, w.failedUse = false, false
		}
		defer func() {
			if !c.Failed() {
				if w.failedUse {
					c.Tag("input:failed-use")
				}
				if w.useWhileOpen {
					c.Tag("input:use-while-a-database-is-open")
				}
				return
			}
			// known-finding predicates are over the input history only
			if _, ok := known["D17-failed-use-poisons-session"]; ok && w.failedUse {
				c.SetKnown("D17-failed-use-poisons-session")
			} else if _, ok := known["D18-use-abandons-open-store"]; ok && w.useWhileOpen {
				c.SetKnown("D18-use-abandons-open-store")
			}
		}()
		steps := depth
		switch seed {
		case "empty":
			if env.Thorough() {
				steps = depth - 1
			}
		case "a-with-long-log+b":
			steps = depth - 2
		case "a-with-12-rows+b":
			steps = depth - 1 // the larger, flushed state
			if env.Thorough() {
				steps = depth - 2
			}
		}
		if seed == "journeys" || seed == "journeys-7-tables" {
			// longer histories over a reduced alphabet of whole steps (each may be several statements): what one
			// database goes through when it is written, flushed, left, re-entered and restarted again and again
			macros := [][]string{{"TICK store#0"}, {"UPDATE"}, {"UPDATE last row"}, {"DELETE last row"}, {"INSERT"}, {"USE b", "USE a"}, {"USE a"}, {"RESTART", "USE a"}, {"KILL", "USE a"}}
			jsteps := 5
			if env.Thorough() {
				jsteps = 6
			}
			for step := 0; step < jsteps; step++ {
				m := macros[c.Choose(len(macros), "journey-step")]
				for _, name := range m {
					found := false
					for _, e := range w.events() {
						if e.name == name || (strings.HasPrefix(name, "TICK") && strings.HasPrefix(e.name, name)) {
							c.Logf("%s", e.name)
							found = true
							if !e.run(w) {
								return
							}
							break
						}
					}
					if !found && !strings.HasPrefix(name, "TICK") {
						panic(lib.HarnessError{Msg: "journey step names no event: " + name})
					}
					if !w.checkCur("after "+name) || !w.checkShow("after "+name) {
						return
					}
				}
				c.NonTrivial()
			}
			steps = 0
		}
		for step := 0; step < steps; step++ {
			evs := w.events()
			e := evs[c.Choose(len(evs), "event")]
			c.Logf("%s", e.name)
			if strings.HasPrefix(e.name, "TICK") {
				c.Tag("tick")
				if strings.Contains(e.name, "store#1") || strings.Contains(e.name, "store#2") {
					c.Tag("tick-of-second-live-store")
				}
			}
			if !e.run(w) {
				return
			}
			if !w.checkCur("after "+e.name) || !w.checkShow("after "+e.name) {
				return
			}
			if e.name == "RESTART" || strings.HasPrefix(e.name, "USE") {
				c.NonTrivial()
			}
		}
		if !c.Fresh() {
			return
		}
		// end of history: restart, then every database must read back and accept a new row
		if !w.restart() {
			return
		}
		names := lib.SortedKeys(w.dbs)
		for _, n := range names {
			if err := w.exec("USE " + n); err != nil {
				w.fail("statement-failed", "final USE %s: %v", n, err)
				return
			}
			w.cur = n
			if !w.checkCur("after the final restart") {
				return
			}
			if w.dbs[n].hasTable {
				for _, e := range w.events() {
					if e.name == "INSERT" {
						if !e.run(w) || !w.checkCur("after the final restart + INSERT") {
							return
						}
					}
				}
			}
			// close this database properly before selecting the next one in the final sweep
			rs := w.sess.RelationService
			if err := guard(func() error { return w.sess.Close() }); err != nil {
				w.fail("close-failed", "%v", err)
				return
			}
			storage.VerifMarkClosed(rs)
			w.sess = &Session{}
			w.cur = ""
		}
		if !w.checkShow("at the end") {
			return
		}
		var sb strings.Builder
		for _, n := range names {
			fmt.Fprintf(&sb, "%s:%v;", n, w.dbs[n].rows)
		}
		c.Observe(sb.String(), w.restarts)
	})
}
