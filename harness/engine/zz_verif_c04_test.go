package engine

import (
	"encoding/binary"
	"encoding/json"
	"fmt"
	"os"
	"path/filepath"
	"sort"
	"strings"

	"github.com/mk6i/mkdb/storage"
	"verif/lib"
)

// C04 — a crash while the page cache is being flushed loses nothing.
//
// For every history the last event is a flush (timer tick, the flush ending
// CREATE TABLE, clean shutdown, or the flush ending recovery after a crash).
// The page and header writes of that flush are captured by the verif hooks
// (called immediately before each WriteAt). Pages of one flush go to distinct
// offsets in Go map order, so the set of reachable on-disk states over all
// orders and crash positions is {base + S | S subset of the page writes} while
// the header write is pending, plus the completed flush. Every subset is
// enumerated; each image is recovered; the flush that ends that recovery is
// torn again the same way (second crash), and the database is recovered again.

func init() { verifChecks["C04"] = runC04 }

type flushSeg struct {
	pages  []storage.VerifWrite // page writes of this segment, ascending offset
	header *storage.VerifWrite  // header write closing the segment (nil: none observed)
}

// segments splits the captured data-file writes into header-terminated segments.
func segments(ws []storage.VerifWrite, path string) []flushSeg {
	var segs []flushSeg
	cur := flushSeg{}
	for i := range ws {
		e := ws[i]
		if e.Path != path {
			continue
		}
		switch e.Kind {
		case "page":
			// a later write to the same offset inside one segment replaces the earlier one
			replaced := false
			for j := range cur.pages {
				if cur.pages[j].Off == e.Off {
					cur.pages[j] = e
					replaced = true
				}
			}
			if !replaced {
				cur.pages = append(cur.pages, e)
			}
		case "header":
			h := e
			cur.header = &h
			sort.Slice(cur.pages, func(a, b int) bool { return cur.pages[a].Off < cur.pages[b].Off })
			segs = append(segs, cur)
			cur = flushSeg{}
		}
	}
	if len(cur.pages) > 0 {
		sort.Slice(cur.pages, func(a, b int) bool { return cur.pages[a].Off < cur.pages[b].Off })
		segs = append(segs, cur)
	}
	return segs
}

func writeAt(b []byte, off uint64, data []byte) []byte {
	end := int(off) + len(data)
	if len(b) < end {
		b = append(b, make([]byte, end-len(b))...)
	}
	copy(b[off:], data)
	return b
}

// tornChoice describes one reachable on-disk state of a flush.
type tornChoice struct {
	seg      int   // segments 0..seg-1 are complete
	subset   uint  // bit i: page i of segment seg was written
	complete bool  // every segment complete (no crash inside the flush)
	npages   int   // pages in the torn segment
	newPages []int // indexes (into the torn segment) of pages at or beyond the persisted allocation frontier
}

// tornSpace enumerates the reachable states; index 0 is "flush completed".
func tornSpace(segs []flushSeg, maxBits int) (n int, decode func(i int) tornChoice, capped bool) {
	type span struct{ seg, count int }
	var spans []span
	total := 1
	for si, s := range segs {
		bits := len(s.pages)
		cnt := 1 << uint(bits)
		if bits > maxBits {
			capped = true
			cnt = 2*bits + 2 // empty, singletons, all-but-one, all
		}
		spans = append(spans, span{si, cnt})
		total += cnt
	}
	decode = func(i int) tornChoice {
		if i == 0 {
			return tornChoice{complete: true}
		}
		i--
		for _, sp := range spans {
			if i < sp.count {
				bits := len(segs[sp.seg].pages)
				var sub uint
				if bits > maxBits {
					all := uint(1)<<uint(bits) - 1
					switch {
					case i == 0:
						sub = 0
					case i <= bits:
						sub = 1 << uint(i-1)
					case i <= 2*bits:
						sub = all &^ (1 << uint(i-bits-1))
					default:
						sub = all
					}
				} else {
					sub = uint(i)
				}
				return tornChoice{seg: sp.seg, subset: sub, npages: bits}
			}
			i -= sp.count
		}
		panic(lib.HarnessError{Msg: "tornSpace decode out of range"})
	}
	return total, decode, capped
}

func applyTorn(base image, path string, segs []flushSeg, tc tornChoice) image {
	img := base.clone()
	b := img[path]
	for si, s := range segs {
		if tc.complete || si < tc.seg {
			for _, p := range s.pages {
				b = writeAt(b, p.Off, p.Data)
			}
			if s.header != nil {
				b = writeAt(b, 0, s.header.Data)
			}
			continue
		}
		if si == tc.seg {
			for i, p := range s.pages {
				if tc.subset>>uint(i)&1 == 1 {
					b = writeAt(b, p.Off, p.Data)
				}
			}
		}
		break
	}
	img[path] = b
	return img
}

// c04TreeAtomic: is every tree either written completely or not at all by this
// torn state? Ownership of the flush's pages is read from the image the
// completed flush would have left (all segments up to and including the torn
// one, with its header). A page no tree reaches counts as a tree of its own.
// ok is false when the completed image cannot be walked.
func c04TreeAtomic(base image, tbl string, segs []flushSeg, tc tornChoice) (atomic bool, ok bool, which string) {
	full := tc
	full.subset = uint(1)<<uint(len(segs[tc.seg].pages)) - 1
	img := applyTorn(base, tbl, segs, full)
	b := img[tbl]
	if h := segs[tc.seg].header; h != nil {
		b = writeAt(b, 0, h.Data)
	}
	owners, err := storage.VerifOwners(b, lib.ScratchRoot())
	if err != nil {
		return false, false, ""
	}
	type wn struct{ written, skipped int }
	per := map[string]*wn{}
	for i, p := range segs[tc.seg].pages {
		o, has := owners[p.Off]
		if !has {
			o = fmt.Sprintf("unreachable-page-%d", i) // (position among the flush's pages, not the offset)
		}
		if per[o] == nil {
			per[o] = &wn{}
		}
		if tc.subset>>uint(i)&1 == 1 {
			per[o].written++
		} else {
			per[o].skipped++
		}
	}
	var ws, ss []string
	for o, x := range per {
		if x.written > 0 && x.skipped > 0 {
			return false, true, ""
		}
		if x.written > 0 {
			ws = append(ws, o)
		} else {
			ss = append(ss, o)
		}
	}
	sort.Strings(ws)
	sort.Strings(ss)
	return true, true, fmt.Sprintf("trees written %v, trees not written %v", ws, ss)
}

// c04D7Listed: the tree-atomic images inside the D7 predicate that known_findings.json lists one by one
// as failing (key = hash of the history, the flush and the torn state). c04ListKeys: emit the keys of
// failing tree-atomic images as tags (used once, by tools_d7_list.py, to write that list).
var (
	c04D7Listed = map[string]bool{}
	c04ListKeys bool
	c04UseList  bool
)

// headerCountersChanged: does the pending header write change the last row id
// or the allocation frontier relative to the persisted header?
func headerCountersChanged(baseFile []byte, h *storage.VerifWrite) bool {
	if h == nil || len(baseFile) < 20 || len(h.Data) < 20 {
		return h != nil
	}
	lastKey := func(b []byte) uint32 { return binary.LittleEndian.Uint32(b[0:4]) }
	nextFree := func(b []byte) uint64 { return binary.LittleEndian.Uint64(b[12:20]) }
	return lastKey(baseFile) != lastKey(h.Data) || nextFree(baseFile) != nextFree(h.Data)
}

func persistedNextFree(img image, path string) uint64 {
	b := img[path]
	if len(b) < 20 {
		return 0
	}
	return binary.LittleEndian.Uint64(b[12:20])
}

// c04Level2Bits: flushes of the second level with more pages than this are
// torn only into the empty set, singletons, co-singletons and the full set;
// -1 = the recovery's flush is not torn (quick tier).
var c04Level2Bits = -1

// c04SkipKnown: do not execute images claimed by an open known finding (quick tier).
var c04SkipKnown = true

// after the final recovery one more statement is acknowledged and the process
// crashes again between statements (fault sequence): the torn flush must not
// poison later durability
var c04Suffix = alphaOpt{Tables: []string{"t1", "t2", "t3"}, Inserts: []int{1}, Updates: true, Deletes: true}

func runC04(env *lib.Env, rep *lib.Report) {
	d := 1
	if env.Thorough() {
		c04Level2Bits = 10
		c04SkipKnown = false
	}
	// the individual list covers the quick tier's bounds (the thorough tier explores them first, as its phase 1);
	// beyond them the whole D7 predicate is executed and counted
	c04UseList = !env.Thorough()
	c04ListKeys = os.Getenv("VERIF_C04_LISTKEYS") != ""
	c04D7Listed = map[string]bool{}
	if k, ok := env.OpenKnown()["D7-torn-flush-with-new-pages"]; ok && len(k.Args) > 0 {
		var a struct {
			Inputs []string `json:"tree_atomic_failing_inputs"`
		}
		if err := json.Unmarshal(k.Args, &a); err != nil {
			panic(lib.HarnessError{Msg: "known_findings.json: D7 args: " + err.Error()})
		}
		for _, h := range a.Inputs {
			c04D7Listed[h] = true
		}
	}
	rep.Bounds["D7 images that write every tree completely or not at all"] = fmt.Sprintf("always executed; %d of them are listed individually (history + torn state) as failing in known_findings.json, any other failing one is a violation", len(c04D7Listed))
	rep.Bounds["second-level subsets (crash inside the recovery of a torn image)"] = map[bool]string{true: "all subsets (<= 10 pages)", false: "not torn in the quick tier"}[env.Thorough()]
	rep.Bounds["images claimed by an open known finding"] = map[bool]string{true: "executed and counted", false: "counted but not executed in the quick tier"}[env.Thorough()]
	rep.Bounds["suffix"] = "after the final recovery: none, or one statement of {INSERT 1, UPDATE half/all, DELETE upper/last/all} per table, then crash + recovery + model check"
	// ("empty": a database that has only seen DDL - its log is empty when the crash comes)
	seeds := []string{"t1x8", "t1x8+t2t3", "interleaved", "t1x12+t2x1", "t1x8-upper-deleted", "empty"}
	if env.Thorough() {
		d = 2
		seeds = append(seeds, "t1x30", "t1x8+t2t3-crashed", "catalog-split")
	}
	alpha := alphaOpt{Tables: []string{"t1", "t2"}, Inserts: []int{1, 9}, Updates: true, Deletes: true}
	var cfgs []histCfg
	for _, seed := range seeds {
		a := alpha
		if seed == "t1x8" {
			a.FailingInsert = true // refused statements before the flush (what they stamp or use up is not in the log)
		}
		cfgs = append(cfgs, histCfg{Name: "real/" + seed, Seed: seed, Alpha: a, Depth: d, TickChoice: true, TickInStmt: seed == "t1x8" || seed == "t1x12+t2x1"})
	}
	cfgs = append(cfgs, histCfg{Name: "leaf3-int3/t1x8", Opt: worldOpt{Leaf: 3, Internal: 3}, Seed: "t1x8", Alpha: alpha, Depth: d, TickChoice: true})
	// two statements before the flush, inserts only, from the two smallest seeds
	ins := alphaOpt{Tables: []string{"t1", "t2"}, Inserts: []int{1, 9}}
	// (with a refused CREATE TABLE among them: whatever it takes - a page, a row id, an LSN - is in no log record)
	insRefused := ins
	insRefused.FailingCreate = true
	cfgs = append(cfgs, histCfg{Name: "real/empty/inserts", Seed: "empty", Alpha: ins, Depth: d + 2, TickChoice: true},
		histCfg{Name: "real/t1x8/inserts", Seed: "t1x8", Alpha: insRefused, Depth: d + 1, TickChoice: true})
	rep.Bounds["history depth before the torn flush"] = d
	rep.Bounds["flush kinds"] = "timer tick, CREATE TABLE's final flush, clean shutdown, the flush that ends recovery, a timer tick that arrives while one more INSERT/UPDATE/DELETE is between its page changes and its log append (two seeds); then a second torn flush inside the recovery of the first torn image"
	rep.Bounds["torn states per flush"] = "all 2^|D| subsets of the flush's page writes with the header pending, plus the completed flush (|D| <= 10, else singletons/co-singletons and the tag capped)"
	rep.Bounds["configs"] = cfgNames(cfgs)
	explore(env, rep, 0, c04Body(cfgs, env.OpenKnown()))
}

func c04Body(cfgs []histCfg, known map[string]lib.KnownEntry) lib.Body {
	return func(c *lib.Ctx) {
		cfg := cfgs[c.Choose(len(cfgs), "config")]
		c.Logf("config %s", cfg.Name)
		w := newWorld(c, cfg.Opt)
		defer func() { w.destroy() }()
		if sw := histSeeds[cfg.Seed](w); sw == nil || c.Failed() {
			if !c.Failed() {
				c.Fail("seed-failed", "seed %s", cfg.Seed)
			}
			return
		} else {
			w = sw
		}
		for step := 0; step < cfg.Depth; step++ {
			s := w.pick(cfg.Alpha, "stmt")
			if !w.do(s) {
				return
			}
			if step < cfg.Depth-1 && cfg.TickChoice && c.Choose(2, "tick") == 1 && !w.tick() {
				return
			}
		}
		if !w.checkAll("before the flush") {
			return
		}
		tbl := filepath.Join("data", "d", "tbl")
		base := w.image()
		inFlight := "" // table whose CREATE TABLE is in flight
		// the flush to be torn
		kinds := []string{"tick", "close", "recovery"}
		if cfg.TickInStmt {
			kinds = append(kinds, "tick-in-statement")
		}
		if _, has := w.model.Tables["t3"]; !has {
			kinds = append(kinds, "create")
		}
		kind := kinds[c.Choose(len(kinds), "flush-kind")]
		w.capture, w.writes = true, nil
		switch kind {
		case "tick":
			if !w.tick() {
				return
			}
		case "tick-in-statement":
			// the timer fires while one more statement is between its page changes and its log append (the flush
			// waits for the statement; an engine whose flush does not wait writes unlogged changes). The crash
			// image starts from the files as they are when the flush begins.
			s := w.pick(alphaOpt{Tables: []string{"t1"}, Inserts: []int{1}, Updates: true, Deletes: true, FewDeletes: true}, "stmt-under-tick")
			if !strings.HasPrefix(s.SQL, "INSERT") && !strings.HasPrefix(s.SQL, "UPDATE") && !strings.HasPrefix(s.SQL, "DELETE") {
				c.Tag("tick-in-statement:not-a-dml-statement")
				return
			}
			pre := w.model.clone()
			var snap image
			finish := w.store().TickInside(func() { snap = w.image() })
			w.scheduled = true // (the flush may still hold the lock when the statement returns)
			c.Logf("TICK while the next statement is between its page changes and its log append")
			ok := w.do(s)
			var fired, inside bool
			var ferr error
			if perr := guard(func() error { fired, inside, ferr = finish(); return nil }); perr != nil {
				w.failErr("flush-failed", "timer flush", perr)
				return
			}
			w.scheduled = false
			if !ok {
				return
			}
			if ferr != nil {
				c.Fail("flush-failed", "timer flush: %v", ferr)
				return
			}
			switch {
			case !fired:
				// the statement wrote nothing to the log: nothing to see here
				c.Tag("tick-in-statement:statement-logged-nothing")
				return
			case inside:
				// the flush ran inside the statement: at the crash the statement is not acknowledged
				c.Logf("the flush ran to its end while the statement had not appended anything to the log yet")
				c.Tag("tick-in-statement:flush-did-not-wait")
				w.model = pre
				base = snap
			default:
				c.Tag("tick-in-statement:flush-waited")
				base = snap
			}
			if base == nil {
				c.Fail("flush-failed", "the timer fired but no flush started")
				return
			}
		case "close":
			c.Logf("CLOSE (clean shutdown)")
			rs := w.sess.RelationService
			if err := guard(func() error { return w.sess.Close() }); err != nil {
				w.failErr("close-failed", "Session.Close", err)
				return
			}
			storage.VerifMarkClosed(rs)
		case "create":
			s := mkCreate("t3", worldSchemas["t3"])
			c.Logf("%s   <- crash inside this statement's final flush", s.SQL)
			if err := w.exec(s.SQL); err != nil {
				w.failErr("statement-failed", s.SQL, err)
				return
			}
			inFlight = "t3"
		case "recovery":
			// crash at the statement boundary, then tear the flush that ends recovery
			c.Logf("CRASH at the statement boundary; recovery starts")
			n := w.recoverFromCapturing(base)
			if c.Failed() {
				return
			}
			w = n
		}
		w.capture = false
		segs := segments(w.writes, tbl)
		c.Tag("flush:" + kind)
		if !w.tearAndRecover(c, base, tbl, segs, inFlight, known, 1) {
			return
		}
	}
}

// recoverFromCapturing is recoverFrom(img) with write capture on, leaving the
// recovered world without an open session (the caller only wants the writes).
func (w *world) recoverFromCapturing(img image) *world {
	w.abandon()
	n := &world{c: w.c, opt: w.opt, model: w.model, capture: true}
	storage.VerifOnWrite(func(e storage.VerifWrite) {
		if n.capture {
			n.writes = append(n.writes, e)
		}
	})
	n.dir = worldScratch()
	n.writeImage(img)
	n.chdir(w.dir)
	storage.VerifSetFuel(worldFuel * 4)
	err := guard(storage.InitStorage)
	storage.VerifSetFuel(-1)
	storage.VerifForgetStores()
	if err != nil {
		n.failErr("recovery-failed", "InitStorage", err)
	}
	n.dead = true // no session, nothing to abandon
	return n
}

// tearAndRecover enumerates the torn states of the captured flush, recovers
// each, checks the acknowledged state, and (level 1) tears the recovery's own
// flush as well.
func (w *world) tearAndRecover(c *lib.Ctx, base image, tbl string, segs []flushSeg, inFlight string, known map[string]lib.KnownEntry, level int) bool {
	n, decode, capped := tornSpace(segs, 10)
	if capped {
		c.Tag("capped-subsets")
	}
	tc := decode(c.Choose(n, fmt.Sprintf("torn-state-%d", level)))
	frontier := persistedNextFree(base, tbl)
	desc := "flush completed"
	matchKnown := ""
	treeAtomic, treesDesc := false, ""
	if !tc.complete {
		s := segs[tc.seg]
		var written, skipped []uint64
		newWritten, newSkipped, oldSkipped := 0, 0, 0
		for i, p := range s.pages {
			if tc.subset>>uint(i)&1 == 1 {
				written = append(written, p.Off)
				if p.Off >= frontier {
					newWritten++
				}
			} else {
				skipped = append(skipped, p.Off)
				if p.Off >= frontier {
					newSkipped++
				} else {
					oldSkipped++
				}
			}
		}
		desc = fmt.Sprintf("crash inside the flush: pages written %v, not written %v, header not written (persisted allocation frontier %d)", written, skipped, frontier)
		if len(written) > 0 && len(skipped) > 0 {
			c.NonTrivial()
			c.Tag("proper-subset")
		}
		if len(written) == 0 {
			c.Tag("nothing-written")
		}
		if len(skipped) == 0 {
			c.Tag("all-pages-no-header")
		}
		// D7 predicate (input only): a non-empty proper subset of a flush that
		// contains a page at or beyond the persisted allocation frontier
		if _, ok := known["D7-torn-flush-with-new-pages"]; ok && len(written) > 0 && len(skipped) > 0 && newWritten+newSkipped > 0 {
			matchKnown = "D7-torn-flush-with-new-pages"
			if c04UseList {
				if at, ok, which := c04TreeAtomic(base, tbl, segs, tc); ok && at {
					treeAtomic, treesDesc = true, which
				}
			}
		} else if _, ok := known["D24-stale-header-after-torn-flush"]; ok && len(written) > 0 && headerCountersChanged(base[tbl], s.header) {
			// D24 predicate (input only): something was written, the header was not, and the pending header moves lastKey or the allocation frontier
			matchKnown = "D24-stale-header-after-torn-flush"
		}
	}
	c.Logf("level %d: %s", level, desc)
	c.Observe(c.Trace())
	if matchKnown != "" && treeAtomic && c04UseList {
		// inside the D7 predicate, but every tree is written completely or not at all: these images are
		// executed in every tier and only the individually listed ones may fail
		// the key names the history, the flush and the trees written - no page offsets, so that it survives
		// changes of the allocation order
		tr := c.Trace()
		key := fmt.Sprintf("%016x", lib.HashString(strings.Join(tr[:len(tr)-1], "\n")+"\n"+treesDesc))
		c.Logf("         %s", treesDesc)
		c.Tag("D7-tree-atomic-image-executed")
		listed := c04D7Listed[key]
		id := matchKnown
		defer func() {
			switch {
			case c.Failed() && c04ListKeys:
				c.Tag("d7-failing-key:" + key)
				c.SetKnown(id)
			case c.Failed() && listed:
				c.SetKnown(id)
			case c.Failed():
				c.Logf("this image is inside the D7 predicate but is not one of the %d listed failing inputs (key %s)", len(c04D7Listed), key)
			case listed:
				c.Tag("known-not-violating:" + id)
			}
		}()
		matchKnown = ""
	}
	if matchKnown != "" && c04SkipKnown {
		c.Tag("known-image-not-executed:" + matchKnown)
		return true
	}
	img := applyTorn(base, tbl, segs, tc)
	defer func() {
		if matchKnown != "" {
			if c.Failed() {
				c.SetKnown(matchKnown)
			} else {
				c.Tag("known-not-violating:" + matchKnown)
			}
		}
	}()
	var nw *world
	var segs2 []flushSeg
	if level == 1 {
		nw = w.recoverFromCapturing(img)
		if c.Failed() {
			return false
		}
		segs2 = segments(nw.writes, tbl)
		// second crash: inside the flush that ends this recovery
		return nw.tearAndRecoverFinal(c, img, tbl, segs2, inFlight, known, matchKnown)
	}
	return true
}

// tearAndRecoverFinal tears the recovery flush (second crash), recovers and
// checks the acknowledged state.
func (w *world) tearAndRecoverFinal(c *lib.Ctx, base image, tbl string, segs []flushSeg, inFlight string, known map[string]lib.KnownEntry, already string) bool {
	tc := tornChoice{complete: true}
	if c04Level2Bits >= 0 {
		n, decode, capped := tornSpace(segs, c04Level2Bits)
		if capped {
			c.Tag("capped-subsets-level2")
		}
		tc = decode(c.Choose(n, "torn-state-2"))
	}
	if tc.complete {
		c.Logf("level 2: recovery's flush completed")
	} else {
		s := segs[tc.seg]
		var written, skipped []uint64
		frontier := persistedNextFree(base, tbl)
		newPages := 0
		for i, p := range s.pages {
			if tc.subset>>uint(i)&1 == 1 {
				written = append(written, p.Off)
			} else {
				skipped = append(skipped, p.Off)
			}
			if p.Off >= frontier {
				newPages++
			}
		}
		c.Logf("level 2: second crash inside the recovery's flush: pages written %v, not written %v (frontier %d)", written, skipped, frontier)
		c.Tag("second-crash")
		if len(written) > 0 && len(skipped) > 0 {
			c.NonTrivial()
		}
		id := ""
		if _, ok := known["D7-torn-flush-with-new-pages"]; ok && len(written) > 0 && len(skipped) > 0 && newPages > 0 {
			id = "D7-torn-flush-with-new-pages"
		} else if _, ok := known["D24-stale-header-after-torn-flush"]; ok && len(written) > 0 && headerCountersChanged(base[tbl], s.header) {
			id = "D24-stale-header-after-torn-flush"
		}
		if id != "" && already == "" {
			if c04SkipKnown {
				c.Tag("known-image-not-executed:" + id)
				return true
			}
			defer func() {
				if c.Failed() {
					c.SetKnown(id)
				} else {
					c.Tag("known-not-violating:" + id)
				}
			}()
		}
	}
	img := applyTorn(base, tbl, segs, tc)
	fw := w.recoverFrom(img, false)
	defer fw.destroy()
	if c.Failed() {
		return false
	}
	ok := fw.checkAllExcept("after torn flush + recovery", inFlight)
	c.Observe(fw.dumpKey())
	if ok && tc.complete && inFlight != "" && fw.tableComplete(inFlight) {
		// the CREATE TABLE that was in flight is there in full: from here on it is a table like the others,
		// and what is acknowledged on it must last
		c.Logf("table %s of the interrupted CREATE TABLE exists completely: adopted", inFlight)
		c.Tag("in-flight-table-adopted")
		mkCreate(inFlight, worldSchemas[inFlight]).apply(fw.model, -1)
		inFlight = ""
		if !fw.checkAll("after adopting the table of the interrupted CREATE TABLE") {
			return false
		}
	}
	if !ok || !tc.complete || inFlight != "" {
		return ok
	}
	// suffix: one more acknowledged statement, then a crash between statements
	sfx := fw.alphabet(c04Suffix)
	si := c.Choose(len(sfx)+1, "suffix-stmt")
	if si == 0 {
		return true
	}
	st := sfx[si-1]
	if st.Kind == "update" {
		fw.model.Gen += 2
	}
	c.Tag("suffix")
	if !fw.do(st) || !fw.checkAll("after the suffix statement") {
		return false
	}
	c.Logf("CRASH (after the suffix statement)")
	fw2 := fw.recoverFrom(fw.image(), false)
	*fw = *fw2 // the deferred destroy removes the newest directory
	if c.Failed() {
		return false
	}
	if !fw.checkAll("after torn flush + recovery + statement + crash + recovery") {
		return false
	}
	// the recovered database keeps working: the newest row of the table the suffix statement touched can be found
	// and deleted through the tree (a root pointer that recovery left stale still shows every row to a scan)
	if t, ok := fw.model.Tables[st.Table]; ok && len(t.Rows) > 0 {
		c.Tag("suffix-probe")
		if !fw.do(mkDelete(fw.model, st.Table, seqPred{"=", t.Inserted})) {
			return false
		}
		return fw.checkAll("after deleting the newest row once everything was recovered")
	}
	return true
}

func (w *world) writeImage(img image) {
	for p, b := range img {
		fp := filepath.Join(w.dir, p)
		mkdirAll(filepath.Dir(fp))
		writeFile(fp, b)
	}
}

// tableComplete: does the catalog list exactly the declared columns of the table, and can it be read (empty)?
func (w *world) tableComplete(name string) bool {
	rows, _, err := w.query("SELECT table_name, field_name, field_type FROM sys_schema")
	if err != nil {
		return false
	}
	typeNo := map[string]int{"int": storage.TypeInt, "varchar": storage.TypeVarchar, "boolean": storage.TypeBoolean, "bigint": storage.TypeBigInt}
	var got, want []string
	for _, r := range rows {
		if fmt.Sprint(r.Vals[0]) == name {
			got = append(got, fmt.Sprintf("%v:%v", r.Vals[1], r.Vals[2]))
		}
	}
	for _, col := range worldSchemas[name] {
		want = append(want, fmt.Sprintf("%s:%d", col.Name, typeNo[col.Type]))
	}
	if strings.Join(got, ",") != strings.Join(want, ",") {
		return false
	}
	data, _, err := w.query("SELECT * FROM " + name)
	return err == nil && len(data) == 0
}
