package engine

// Query descriptors, SQL rendering and an independent reference evaluator
// (filter -> project/aggregate -> sort -> offset -> limit over plain Go values)
// shared by C05 (single table), C06 (joins) and C07 (aggregates). Nothing here
// shares code with engine/select.go.

import (
	"fmt"
	"math"
	"sort"
	"strings"

	"github.com/mk6i/mkdb/sql"
	"github.com/mk6i/mkdb/storage"
	"verif/lib"
)

type qTable struct {
	name string
	cols []mCol
	rows [][]any
}

type qRef struct{ qual, name string }

type qExpr struct {
	isCol bool
	col   qRef
	lit   any
}

func qc(qual, name string) qExpr { return qExpr{isCol: true, col: qRef{qual, name}} }
func ql(v any) qExpr             { return qExpr{lit: v} }

func (e qExpr) sql() string {
	if e.isCol {
		if e.col.qual != "" {
			return e.col.qual + "." + e.col.name
		}
		return e.col.name
	}
	if n, ok := e.lit.(int64); ok && qZeroPad && n >= 0 {
		return fmt.Sprintf("0%d", n)
	}
	return sqlLit(e.lit)
}

// qZeroPad is set while a query with zeroPad is rendered: non-negative integer literals get a leading zero.
var qZeroPad bool

// outName is the name of the output column an item produces.
func (it qItem) outName() string {
	if it.alias != "" {
		return it.alias
	}
	return it.col.name
}

type qAtom struct {
	l, r qExpr
	op   string
}

// qCond is atom (AND|OR atom)*: ors[i] is the connective after atom i.
type qCond struct {
	atoms []qAtom
	ors   []bool
}

func (c *qCond) sql() string {
	var sb strings.Builder
	for i, a := range c.atoms {
		if i > 0 {
			if c.ors[i-1] {
				sb.WriteString(" OR ")
			} else {
				sb.WriteString(" AND ")
			}
		}
		if a.op == "" {
			// a bare boolean operand (TRUE, FALSE)
			sb.WriteString(a.l.sql())
			continue
		}
		sb.WriteString(a.l.sql() + " " + a.op + " " + a.r.sql())
	}
	return sb.String()
}

type qItem struct {
	kind  string // star | col | cond | lit | count* | count | avg
	col   qRef
	cond  *qCond
	lit   any
	alias string
}

func (it qItem) sql() string {
	s := ""
	switch it.kind {
	case "star":
		return "*"
	case "col":
		s = qc(it.col.qual, it.col.name).sql()
	case "cond":
		s = it.cond.sql()
	case "lit":
		s = sqlLit(it.lit)
	case "count*":
		s = "COUNT(*)"
	case "count":
		s = "COUNT(" + qc(it.col.qual, it.col.name).sql() + ")"
	case "avg":
		s = "AVG(" + qc(it.col.qual, it.col.name).sql() + ")"
	}
	if it.alias != "" {
		s += " " + it.alias
	}
	return s
}

type qJoin struct {
	kind  string // "" (first table) | INNER JOIN | JOIN | LEFT JOIN | RIGHT JOIN
	table string
	alias string
	on    *qCond
}

type qSort struct {
	key qRef
	dir string // "" | ASC | DESC
}

type qQuery struct {
	items      []qItem
	from       []qJoin
	where      *qCond
	groupBy    []qRef
	orderBy    []qSort
	limit      int // -1 absent
	offset     int // -1 absent
	limitFirst bool
	mayReject  bool   // the statement may be rejected (e.g. as ambiguous); if it is answered, the answer must be right
	lead       string // blanks in front of the text (shifts tokens relative to the scanner's buffer boundaries)
	zeroPad    bool   // integer literals and LIMIT/OFFSET counts are written with a leading zero (still decimal)
}

func (q *qQuery) sql() string {
	var sb strings.Builder
	qZeroPad = q.zeroPad
	defer func() { qZeroPad = false }()
	pad := ""
	if q.zeroPad {
		pad = "0"
	}
	sb.WriteString(q.lead + "SELECT ")
	for i, it := range q.items {
		if i > 0 {
			sb.WriteString(", ")
		}
		sb.WriteString(it.sql())
	}
	for i, j := range q.from {
		if i == 0 {
			sb.WriteString(" FROM " + j.table)
		} else {
			sb.WriteString(" " + j.kind + " " + j.table)
		}
		if j.alias != "" {
			sb.WriteString(" " + j.alias)
		}
		if i > 0 {
			sb.WriteString(" ON " + j.on.sql())
		}
	}
	if q.where != nil {
		sb.WriteString(" WHERE " + q.where.sql())
	}
	if len(q.groupBy) > 0 {
		sb.WriteString(" GROUP BY ")
		for i, g := range q.groupBy {
			if i > 0 {
				sb.WriteString(", ")
			}
			sb.WriteString(qc(g.qual, g.name).sql())
		}
	}
	if len(q.orderBy) > 0 {
		sb.WriteString(" ORDER BY ")
		for i, s := range q.orderBy {
			if i > 0 {
				sb.WriteString(", ")
			}
			sb.WriteString(qc(s.key.qual, s.key.name).sql())
			if s.dir != "" {
				sb.WriteString(" " + s.dir)
			}
		}
	}
	lim := ""
	if q.limit >= 0 {
		lim = fmt.Sprintf(" LIMIT %s%d", pad, q.limit)
	}
	off := ""
	if q.offset >= 0 {
		off = fmt.Sprintf(" OFFSET %s%d", pad, q.offset)
	}
	if q.limitFirst {
		sb.WriteString(lim + off)
	} else {
		sb.WriteString(off + lim)
	}
	return sb.String()
}

// ---------------------------------------------------------------- reference evaluation

type rField struct{ table, name string }

type refResult struct {
	err      string   // non-empty: the query must be rejected (any error value)
	header   []string // expected output column names ("" = any name)
	rows     [][]any
	ordered  bool  // rows is an exact sequence (no ORDER BY: insertion order)
	sortKeys []int // output column indexes of the ORDER BY keys
	sortDesc []bool
	// with ORDER BY: `rows` is the full sorted candidate set before offset/limit
	offset, limit int
	multiset      bool  // compare as a multiset (joins, aggregates)
	maxAvgRows    int64 // largest number of rows that went into one AVG value
	// some AVG of the query runs over values for which an average that is re-rounded after every row (in some
	// order of the rows) differs from the true rounded average: the input predicate of known finding D11
	avgStepDiffers bool
}

func lookupField(fields []rField, r qRef) (int, string) {
	found := -1
	for i, f := range fields {
		if f.name != r.name {
			continue
		}
		if r.qual != "" {
			if f.table == r.qual {
				return i, ""
			}
			continue
		}
		if found >= 0 {
			return -1, "ambiguous column " + r.name
		}
		found = i
	}
	if found < 0 {
		return -1, "unknown column " + r.name
	}
	return found, ""
}

func evalExpr(e qExpr, fields []rField, row []any) (any, string) {
	if !e.isCol {
		return e.lit, ""
	}
	i, err := lookupField(fields, e.col)
	if err != "" {
		return nil, err
	}
	return row[i], ""
}

func cmpVals(a, b any, op string) (bool, string) {
	switch op {
	case "=":
		return a == b, ""
	case "!=":
		return a != b, ""
	}
	var c int
	switch x := a.(type) {
	case int64:
		y, ok := b.(int64)
		if !ok {
			return false, "type mismatch"
		}
		switch {
		case x < y:
			c = -1
		case x > y:
			c = 1
		}
	case string:
		y, ok := b.(string)
		if !ok {
			return false, "type mismatch"
		}
		c = strings.Compare(x, y)
	default:
		return false, "no ordering for this type"
	}
	switch op {
	case "<":
		return c < 0, ""
	case "<=":
		return c <= 0, ""
	case ">":
		return c > 0, ""
	case ">=":
		return c >= 0, ""
	}
	return false, "bad operator"
}

// evalCond: AND binds tighter than OR.
func evalCond(c *qCond, fields []rField, row []any) (bool, string) {
	result := false
	term := true
	for i, a := range c.atoms {
		l, err := evalExpr(a.l, fields, row)
		if err != "" {
			return false, err
		}
		var v bool
		if a.op == "" {
			b, isBool := l.(bool)
			if !isBool {
				return false, "type mismatch"
			}
			v = b
		} else {
			r, err := evalExpr(a.r, fields, row)
			if err != "" {
				return false, err
			}
			v, err = cmpVals(l, r, a.op)
			if err != "" {
				return false, err
			}
		}
		term = term && v
		if i == len(c.atoms)-1 || c.ors[i] {
			result = result || term
			term = true
		}
	}
	return result, ""
}

// refEval computes the reference meaning of q over the tables.
func refEval(q *qQuery, tables map[string]*qTable) *refResult {
	res := &refResult{offset: q.offset, limit: q.limit}
	// FROM
	var fields []rField
	var rows [][]any
	for i, j := range q.from {
		t, ok := tables[j.table]
		if !ok {
			res.err = "unknown table"
			return res
		}
		id := j.table
		if j.alias != "" {
			id = j.alias
		}
		var tf []rField
		for _, c := range t.cols {
			tf = append(tf, rField{id, c.Name})
		}
		if i == 0 {
			fields = tf
			for _, r := range t.rows {
				rows = append(rows, append([]any{}, r...))
			}
			continue
		}
		all := append(append([]rField{}, fields...), tf...)
		var out [][]any
		matchedR := make([]bool, len(t.rows))
		for _, l := range rows {
			matched := false
			for ri, r := range t.rows {
				cand := append(append([]any{}, l...), r...)
				ok, err := evalCond(j.on, all, cand)
				if err != "" {
					res.err = err
					return res
				}
				if ok {
					matched = true
					matchedR[ri] = true
					out = append(out, cand)
				}
			}
			if !matched && j.kind == "LEFT JOIN" {
				out = append(out, append(append([]any{}, l...), make([]any, len(tf))...))
			}
		}
		if j.kind == "RIGHT JOIN" {
			// pairs plus each unmatched right row once, NULL-padded on the left
			for ri, r := range t.rows {
				if !matchedR[ri] {
					out = append(out, append(make([]any, len(fields)), r...))
				}
			}
		}
		// an ON condition over an empty side is never evaluated; reject statically detectable column errors anyway
		if len(rows) == 0 || len(t.rows) == 0 {
			for _, a := range j.on.atoms {
				for _, e := range []qExpr{a.l, a.r} {
					if e.isCol {
						if _, err := lookupField(all, e.col); err != "" {
							res.err = "static:" + err
						}
					}
				}
			}
		}
		fields, rows = all, out
		res.multiset = true
	}
	// WHERE
	if q.where != nil {
		var kept [][]any
		for _, r := range rows {
			ok, err := evalCond(q.where, fields, r)
			if err != "" {
				res.err = err
				return res
			}
			if ok {
				kept = append(kept, r)
			}
		}
		if len(rows) == 0 {
			for _, a := range q.where.atoms {
				for _, e := range []qExpr{a.l, a.r} {
					if e.isCol {
						if _, err := lookupField(fields, e.col); err != "" {
							res.err = "static:" + err
						}
					}
				}
			}
		}
		rows = kept
	}
	// projection / aggregation
	hasAgg := false
	for _, it := range q.items {
		if it.kind == "count*" || it.kind == "count" || it.kind == "avg" {
			hasAgg = true
		}
	}
	if len(q.groupBy) > 0 {
		hasAgg = true // GROUP BY without an aggregate function still groups
	}
	var outFields []rField
	var out [][]any
	if len(q.items) == 1 && q.items[0].kind == "star" {
		outFields, out = fields, rows
		for _, f := range fields {
			res.header = append(res.header, f.name)
		}
	} else {
		idx := make([]int, len(q.items))
		for i, it := range q.items {
			switch it.kind {
			case "col", "count", "avg":
				k, err := lookupField(fields, it.col)
				if err != "" {
					res.err = err
					return res
				}
				idx[i] = k
			}
			name := ""
			switch {
			case it.alias != "":
				name = it.alias
			case it.kind == "col":
				name = it.col.name
			}
			res.header = append(res.header, name)
			if it.kind == "col" {
				outFields = append(outFields, rField{fields[idx[i]].table, name})
			} else {
				outFields = append(outFields, rField{"", name})
			}
		}
		if !hasAgg {
			for _, r := range rows {
				var o []any
				for i, it := range q.items {
					switch it.kind {
					case "col":
						o = append(o, r[idx[i]])
					case "lit":
						o = append(o, it.lit)
					case "cond":
						v, err := evalCond(it.cond, fields, r)
						if err != "" {
							res.err = err
							return res
						}
						o = append(o, v)
					}
				}
				out = append(out, o)
			}
		} else {
			// grouping columns, resolved against the select list (by name, qualifier or alias)
			var gidx []int
			for _, g := range q.groupBy {
				hit := -1
				for i, it := range q.items {
					if it.kind != "col" {
						continue
					}
					if (it.alias != "" && g.qual == "" && g.name == it.alias) || (g.name == it.col.name && (g.qual == "" || g.qual == it.col.qual || it.col.qual == "")) {
						hit = i
					}
				}
				if hit < 0 {
					res.err = "group by column not in select list"
					return res
				}
				gidx = append(gidx, hit)
			}
			type group struct {
				key   []any
				first []any
				count []int64
				sum   []int64
				seq   [][]int64 // per AVG item: its operands in scan order
			}
			var groups []*group
			for _, r := range rows {
				var key []any
				for _, gi := range gidx {
					key = append(key, r[idx[gi]])
				}
				var g *group
				for _, cand := range groups {
					same := true
					for k := range key {
						if cand.key[k] != key[k] {
							same = false
						}
					}
					if same {
						g = cand
					}
				}
				if g == nil {
					g = &group{key: key, first: r, count: make([]int64, len(q.items)), sum: make([]int64, len(q.items)), seq: make([][]int64, len(q.items))}
					groups = append(groups, g)
				}
				for i, it := range q.items {
					switch it.kind {
					case "count*":
						g.count[i]++
					case "count":
						if r[idx[i]] != nil {
							g.count[i]++
						}
					case "avg":
						v, ok := r[idx[i]].(int64)
						if !ok {
							res.err = "avg over a non-integer or NULL value"
							return res
						}
						g.count[i]++
						g.sum[i] += v
						g.seq[i] = append(g.seq[i], v)
					}
				}
			}
			if len(groups) == 0 && len(q.groupBy) == 0 {
				// one all-zero row for the empty input
				var o []any
				for _, it := range q.items {
					switch it.kind {
					case "lit":
						o = append(o, it.lit)
					default:
						o = append(o, int64(0))
					}
				}
				out = append(out, o)
			}
			for _, g := range groups {
				var o []any
				for i, it := range q.items {
					switch it.kind {
					case "col":
						o = append(o, g.first[idx[i]])
					case "lit":
						o = append(o, it.lit)
					case "count*", "count":
						o = append(o, g.count[i])
					case "avg":
						o = append(o, avgMarker{sum: g.sum[i], n: g.count[i]})
						if g.count[i] > res.maxAvgRows {
							res.maxAvgRows = g.count[i]
						}
						if stepAvgCanDiffer(g.seq[i]) {
							res.avgStepDiffers = true
						}
					}
				}
				out = append(out, o)
			}
			res.multiset = true
		}
	}
	res.rows = out
	// ORDER BY keys are resolved against the output columns
	for _, s := range q.orderBy {
		k, err := lookupField(outFields, s.key)
		if err != "" {
			res.err = "sort key: " + err
			return res
		}
		res.sortKeys = append(res.sortKeys, k)
		res.sortDesc = append(res.sortDesc, s.dir == "DESC")
	}
	res.ordered = len(q.orderBy) == 0 && !res.multiset
	return res
}

// stepAvgCanDiffer: is there an order of the values in which the average re-rounded after every value
// differs from the true rounded average? (up to 7 values: every order; beyond: assumed yes)
func stepAvgCanDiffer(vals []int64) bool {
	if len(vals) < 3 {
		return false
	}
	if len(vals) > 7 {
		return true
	}
	var sum int64
	for _, v := range vals {
		sum += v
	}
	want := avgMarker{sum: sum, n: int64(len(vals))}
	differs := false
	p := append([]int64{}, vals...)
	var rec func(k int)
	rec = func(k int) {
		if differs {
			return
		}
		if k == len(p) {
			var avg int64
			for i, v := range p {
				avg = int64(math.Round(float64(avg*int64(i)+v) / float64(i+1)))
			}
			if !want.matches(avg) {
				differs = true
			}
			return
		}
		for i := k; i < len(p); i++ {
			p[k], p[i] = p[i], p[k]
			rec(k + 1)
			p[k], p[i] = p[i], p[k]
		}
	}
	rec(0)
	return differs
}

// avgWildcard: while set, an AVG value of the reference matches any integer (used to tell "only the AVG
// values are off" from other disagreements).
var avgWildcard bool

// avgMarker stands for round(sum/n); an exact .5 may round either way.
type avgMarker struct{ sum, n int64 }

func (a avgMarker) matches(v any) bool {
	got, ok := v.(int64)
	if !ok {
		return false
	}
	if avgWildcard {
		return true
	}
	exact := float64(a.sum) / float64(a.n)
	if math.Abs(exact-math.Trunc(exact)) == 0.5 {
		return got == int64(math.Floor(exact)) || got == int64(math.Ceil(exact))
	}
	return got == int64(math.Round(exact))
}

func valMatches(want, got any) bool {
	if m, ok := want.(avgMarker); ok {
		return m.matches(got)
	}
	return want == got
}

func rowMatches(want, got []any) bool {
	if len(want) != len(got) {
		return false
	}
	for i := range want {
		if !valMatches(want[i], got[i]) {
			return false
		}
	}
	return true
}

func lessVals(a, b any) int {
	switch x := a.(type) {
	case int64:
		y := b.(int64)
		switch {
		case x < y:
			return -1
		case x > y:
			return 1
		}
	case string:
		return strings.Compare(x, b.(string))
	case bool:
		y := b.(bool)
		switch {
		case !x && y:
			return -1
		case x && !y:
			return 1
		}
	}
	return 0
}

// compareResult judges the engine's answer against the reference meaning and
// returns "" or a description of the disagreement.
func compareResult(ref *refResult, rows []*storage.Row, fields []*storage.Field, err error) string {
	if pe, ok := err.(*panicErr); ok {
		return fmt.Sprintf("PANIC: %v\n%s", pe.val, trimStack(pe.stack))
	}
	if ref.err != "" {
		if err == nil {
			if strings.HasPrefix(ref.err, "static:") {
				return "" // only detectable while evaluating rows; an empty input never evaluates
			}
			return "the query must be rejected (" + ref.err + ") but returned a result"
		}
		return ""
	}
	if err != nil {
		return "the query is well-typed but was rejected: " + err.Error()
	}
	for i, h := range ref.header {
		if h == "" {
			continue
		}
		if i >= len(fields) || fmt.Sprint(fields[i].Column) != h {
			var got []string
			for _, f := range fields {
				got = append(got, fmt.Sprint(f.Column))
			}
			return fmt.Sprintf("result column %d should be named %q; header is %v", i, h, got)
		}
	}
	got := make([][]any, len(rows))
	for i, r := range rows {
		got[i] = r.Vals
	}
	cand := ref.rows
	window := func(n int) (int, int) {
		lo, hi := 0, n
		if ref.offset >= 0 {
			lo = ref.offset
			if lo > n {
				lo = n
			}
		}
		if ref.limit >= 0 && ref.limit < hi-lo { // (not lo+limit: the sum may exceed the integer range)
			hi = lo + ref.limit
		}
		return lo, hi
	}
	render := func(rs [][]any) string {
		var s []string
		for _, r := range rs {
			s = append(s, fmt.Sprint(r))
		}
		return strings.Join(s, " ")
	}
	if len(ref.sortKeys) == 0 {
		if ref.multiset && ref.offset < 0 && ref.limit < 0 {
			if len(got) != len(cand) {
				return fmt.Sprintf("result has %d rows, reference %d\n got:  %s\n want: %s (any order)", len(got), len(cand), render(got), render(cand))
			}
			used := make([]bool, len(cand))
			for _, g := range got {
				hit := false
				for i, c := range cand {
					if !used[i] && rowMatches(c, g) {
						used[i], hit = true, true
						break
					}
				}
				if !hit {
					return fmt.Sprintf("row %v is not in the reference result (or too often)\n got:  %s\n want: %s (any order)", g, render(got), render(cand))
				}
			}
			return ""
		}
		lo, hi := window(len(cand))
		want := cand[lo:hi]
		if ref.multiset {
			// order unspecified and a window applied: the right number of rows, each of them a different row of
			// the full result
			if len(got) != len(want) {
				return fmt.Sprintf("result has %d rows, reference window has %d", len(got), len(want))
			}
			used := make([]bool, len(cand))
			for _, g := range got {
				hit := false
				for i, c := range cand {
					if !used[i] && rowMatches(c, g) {
						used[i], hit = true, true
						break
					}
				}
				if !hit {
					return fmt.Sprintf("row %v is not in the reference result (or too often)\n got:  %s\n full result before OFFSET/LIMIT: %s (any order)", g, render(got), render(cand))
				}
			}
			return ""
		}
		if len(got) != len(want) {
			return fmt.Sprintf("result has %d rows, reference %d\n got:  %s\n want: %s", len(got), len(want), render(got), render(want))
		}
		for i := range want {
			if !rowMatches(want[i], got[i]) {
				return fmt.Sprintf("row %d is %v, reference %v\n got:  %s\n want: %s", i, got[i], want[i], render(got), render(want))
			}
		}
		return ""
	}
	// ORDER BY: the result must be the window of SOME ordering consistent with the keys
	keyCmp := func(a, b []any) int {
		for i, k := range ref.sortKeys {
			c := lessVals(a[k], b[k])
			if ref.sortDesc[i] {
				c = -c
			}
			if c != 0 {
				return c
			}
		}
		return 0
	}
	sorted := append([][]any{}, cand...)
	sort.SliceStable(sorted, func(i, j int) bool { return keyCmp(sorted[i], sorted[j]) < 0 })
	lo, hi := window(len(sorted))
	if len(got) != hi-lo {
		return fmt.Sprintf("result has %d rows, reference %d\n got:  %s\n sorted reference: %s window [%d,%d)", len(got), hi-lo, render(got), render(sorted), lo, hi)
	}
	for i := 1; i < len(got); i++ {
		if keyCmp(got[i-1], got[i]) > 0 {
			return fmt.Sprintf("rows %d and %d are out of order for the ORDER BY keys\n got: %s", i-1, i, render(got))
		}
	}
	// every returned row must have sort keys equal to the reference row at its position, and come from the candidate multiset
	used := make([]bool, len(sorted))
	for i, g := range got {
		if keyCmp(g, sorted[lo+i]) != 0 {
			return fmt.Sprintf("row %d has sort keys different from position %d of every valid ordering\n got:  %s\n sorted reference: %s window [%d,%d)", i, lo+i, render(got), render(sorted), lo, hi)
		}
		hit := false
		for j, c := range sorted {
			if !used[j] && rowMatches(c, g) {
				used[j], hit = true, true
				break
			}
		}
		if !hit {
			return fmt.Sprintf("row %v is not in the reference result (or too often)\n got:  %s\n reference: %s", g, render(got), render(sorted))
		}
	}
	return ""
}

// ---------------------------------------------------------------- running against a real database

type qWorld struct {
	w      *world
	tables map[string]*qTable
}

// newQWorld creates a database holding the given tables (NULL = nil values are
// inserted by omitting the column from the column list).
func newQWorld(c *lib.Ctx, tables []*qTable) *qWorld {
	w := newWorld(c, worldOpt{})
	qw := &qWorld{w: w, tables: map[string]*qTable{}}
	for _, t := range tables {
		qw.tables[t.name] = t
		if !w.do(mkCreate(t.name, t.cols)) {
			panic(lib.HarnessError{Msg: "cannot create table " + t.name})
		}
		for _, r := range t.rows {
			direct := func() {
				// the grammar has no negative literals: supply the row as direct statement values
				var cn []string
				var vs []any
				for i, v := range r {
					if v != nil {
						cn = append(cn, t.cols[i].Name)
						vs = append(vs, v)
					}
				}
				q := sql.InsertStatement{TableName: t.name, InsertColumnsAndSource: sql.InsertColumnsAndSource{
					InsertColumnList: sql.InsertColumnList{ColumnNames: cn},
					QueryExpression:  sql.TableValueConstructor{TableValueConstructorList: []sql.RowValueConstructor{{RowValueConstructorList: vs}}}}}
				if err := guard(func() error { _, e := EvaluateInsert(q, w.sess.RelationService); return e }); err != nil {
					panic(lib.HarnessError{Msg: "direct insert: " + err.Error()})
				}
			}
			negative := false
			for _, v := range r {
				if n, ok := v.(int64); ok && n < 0 {
					negative = true
				}
			}
			if negative {
				direct()
				continue
			}
			var cols, vals []string
			for i, v := range r {
				if v == nil {
					continue
				}
				cols = append(cols, t.cols[i].Name)
				vals = append(vals, sqlLit(v))
			}
			q := fmt.Sprintf("INSERT INTO %s (%s) VALUES (%s)", t.name, strings.Join(cols, ", "), strings.Join(vals, ", "))
			if err := w.exec(q); err != nil {
				// the table must exist for the SELECTs under test whatever the front end does
				// with this INSERT: supply the row directly (INSERT text is C08/C10's subject)
				c.Tag("setup-insert-text-rejected")
				direct()
			}
		}
	}
	return qw
}

// run executes the SQL text through parseSQL -> EvaluateSelect.
func (qw *qWorld) run(text string) ([]*storage.Row, []*storage.Field, error) {
	return qw.w.query(text)
}

// queryRunner feeds (query, reference) pairs into a report.
type queryRunner struct {
	env    *lib.Env
	rep    *lib.Report
	fails  map[string]int
	known  map[string]lib.KnownEntry
	nQuery int64
}

func (r *queryRunner) check(qw *qWorld, q *qQuery, family string, knownID string) {
	text := q.sql()
	ref := refEval(q, qw.tables)
	if knownID == "D11-avg-running-rounded" && !ref.avgStepDiffers {
		// the predicate of D11: an AVG over three or more values whose step-wise re-rounded average can differ
		// from the true one
		knownID = ""
	}
	rows, fields, err := qw.run(text)
	r.nQuery++
	msg := compareResult(ref, rows, fields, err)
	if msg != "" && knownID == "D11-avg-running-rounded" {
		// D11 explains wrong AVG values only: with those left out of the comparison the rest must agree
		avgWildcard = true
		rest := compareResult(ref, rows, fields, err)
		avgWildcard = false
		if rest != "" {
			knownID = ""
			msg = "(apart from the AVG values covered by known finding D11) " + rest
		}
	}
	if _, isPanic := err.(*panicErr); q.mayReject && err != nil && !isPanic {
		msg = "" // rejecting the statement is acceptable, answering it wrongly is not
	}
	nontrivial := ref.err == "" && err == nil && (q.where != nil || len(q.from) > 1 || len(q.orderBy) > 0 || len(q.groupBy) > 0 || q.limit >= 0 || q.offset >= 0)
	outcome := "ok"
	if msg != "" {
		outcome = "mismatch"
	}
	r.rep.AddCase(nontrivial, lib.HashString(family+"|"+text), lib.HashString(outcome+fmt.Sprint(len(rows))))
	if msg == "" {
		if knownID != "" {
			r.rep.KnownNotViolating(knownID)
		}
		if nontrivial && r.rep.WantSample() {
			r.rep.AddSample(map[string]any{"family": family, "query": text, "tables": describeTables(qw.tables), "rows returned": len(rows)})
		}
		return
	}
	kind := "wrong-result"
	if strings.HasPrefix(msg, "PANIC") {
		kind = "panic"
	}
	f := &lib.Failure{Kind: kind, Detail: fmt.Sprintf("[%s] %s\n tables: %s\n %s", family, text, describeTables(qw.tables), msg),
		Trace: []string{family, text, describeTables(qw.tables)}, Known: knownID}
	key := family + "/" + kind + "/" + knownID
	r.fails[key]++
	if knownID != "" || r.fails[key] <= 3 {
		r.rep.AddFailure(f)
	} else {
		r.rep.FailCount++
	}
}

func describeTables(ts map[string]*qTable) string {
	var sb strings.Builder
	for _, n := range lib.SortedKeys(ts) {
		t := ts[n]
		var cols []string
		for _, c := range t.cols {
			cols = append(cols, c.Name)
		}
		fmt.Fprintf(&sb, "%s(%s)=%v ", n, strings.Join(cols, ","), t.rows)
	}
	return sb.String()
}
