package engine

import (
	"fmt"
	"strings"

	"verif/lib"
)

// C16 — results do not depend on the page-cache size. Every history is run at
// the default capacity (10000) and at every small capacity of the list, with a
// timer flush after every statement in all runs; statement outcomes and the
// contents of every table after every statement must be identical. A run that
// hits ErrLRUCacheFull is outside the property's precondition and is dropped.

func init() { verifChecks["C16"] = runC16 }

var c16Cols = []mCol{{"a", "int"}, {"c", "varchar"}, {"e", "int"}, {"f", "boolean"}, {"g", "bigint"}}

func c16Seed(w *world, name string) *world {
	switch name {
	case "five-wide-tables":
		// five tables with five columns each: catalog scans touch many pages between a fetch and its use
		ok := true
		for i := 0; ok && i < 5; i++ {
			ok = w.do(mkCreate(fmt.Sprintf("w%d", i), c16Cols))
		}
		for i := 0; ok && i < 5; i++ {
			ok = w.do(mkInsert(w.model, "w0", 4, false)) && w.do(mkInsert(w.model, "w3", 4, false))
		}
		return okw(w, ok)
	case "t1x60-t2x30":
		ok := w.do(mkCreate("t1", worldSchemas["t1"])) && w.do(mkCreate("t2", worldSchemas["t2"]))
		for i := 0; ok && i < 15; i++ {
			ok = w.do(mkInsert(w.model, "t1", 4, false)) && w.do(mkInsert(w.model, "t2", 2, false))
		}
		return okw(w, ok && w.do(mkDelete(w.model, "t1", seqPred{"<=", 10})) && w.do(mkUpdate(w.model, "t2", seqPred{">", 20})))
	case "small-caps-deep":
		// used with leaf 3 / internal 3: four levels within 40 rows
		ok := w.do(mkCreate("t1", worldSchemas["t1"])) && w.do(mkCreate("t2", worldSchemas["t2"]))
		for i := 0; ok && i < 20; i++ {
			ok = w.do(mkInsert(w.model, "t1", 2, false))
			if ok && i%4 == 0 {
				ok = w.do(mkInsert(w.model, "t2", 1, false))
			}
		}
		return okw(w, ok)
	}
	return nil
}

type c16Cfg struct {
	name  string
	seed  string
	opt   worldOpt
	caps  []int
	alpha alphaOpt
	depth int
}

func runC16(env *lib.Env, rep *lib.Report) {
	d := 2
	if env.Thorough() {
		d = 3
	}
	caps := []int{6, 7, 8, 10, 12, 16, 32}
	deepCaps := []int{10, 11, 12, 14, 16, 24, 48}
	cfgs := []c16Cfg{
		{"real/five-wide-tables", "five-wide-tables", worldOpt{}, caps, alphaOpt{Tables: []string{"w0", "w3", "w4"}, Inserts: []int{1, 4}, Updates: true, Deletes: true}, d},
		{"real/t1x60-t2x30", "t1x60-t2x30", worldOpt{}, caps, alphaOpt{Tables: []string{"t1", "t2"}, Inserts: []int{1, 4}, BigInsert: true, EmptyInsert: true, FailingInsert: true, Updates: true, Deletes: true}, d},
		{"leaf3-int3/small-caps-deep", "small-caps-deep", worldOpt{Leaf: 3, Internal: 3}, deepCaps, alphaOpt{Tables: []string{"t1", "t2"}, Inserts: []int{1, 2}, Updates: true, Deletes: true}, d},
	}
	rep.Bounds["capacities"] = fmt.Sprintf("%v (real node capacity), %v (leaf 3 / internal 3, four-level trees), each against 10000", caps, deepCaps)
	rep.Bounds["depth"] = d
	var names []string
	for _, c := range cfgs {
		names = append(names, c.name)
	}
	rep.Bounds["configs"] = names
	explore(env, rep, 0, func(c *lib.Ctx) {
		cfg := cfgs[c.Choose(len(cfgs), "config")]
		c.Logf("config %s", cfg.name)
		type step struct {
			idx  int
			sql  string
			err  bool
			dump string
		}
		// reference run at the default capacity
		ref := cfg.opt
		ref.AutoTick = true
		w := newWorld(c, ref)
		sw := c16Seed(w, cfg.seed)
		if sw == nil || c.Failed() {
			if !c.Failed() {
				c.Fail("seed-failed", "seed %s", cfg.seed)
			}
			w.destroy()
			return
		}
		w = sw
		seedDump := w.fullDump()
		var steps []step
		for i := 0; i < cfg.depth; i++ {
			a := w.alphabet(cfg.alpha)
			idx := c.Choose(len(a), "stmt")
			s := w.pickAt(cfg.alpha, idx)
			if !w.do(s) {
				w.destroy()
				return
			}
			steps = append(steps, step{idx: idx, sql: s.SQL, dump: w.fullDump()})
		}
		if !w.checkAll("reference run") {
			w.destroy()
			return
		}
		pagesRef, _ := w.store().CacheLen()
		w.destroy()
		// the same history at every small capacity
		for _, capN := range cfg.caps {
			o := cfg.opt
			o.AutoTick, o.TolerateCacheFull, o.Cache = true, true, capN
			c.Logf("--- capacity %d", capN)
			v := newWorld(c, o)
			sv := c16Seed(v, cfg.seed)
			if sv == nil {
				if v.cacheFull {
					c.Tag(fmt.Sprintf("dropped-cache-full:cap%d", capN))
					v.destroy()
					continue
				}
				if !c.Failed() {
					c.Fail("outcome-differs", "capacity %d: seed statement failed that succeeds with the default cache", capN)
				}
				v.destroy()
				return
			}
			v = sv
			if d := v.fullDump(); d != seedDump {
				c.Fail("contents-differ", "capacity %d: after the seed the tables differ from the default-cache run\n small:   %s\n default: %s", capN, d, seedDump)
				v.destroy()
				return
			}
			dropped := false
			for i, st := range steps {
				s := v.pickAt(cfg.alpha, st.idx)
				if s.SQL != st.sql {
					panic(lib.HarnessError{Msg: "C16: regenerated statement differs from the reference run: " + s.SQL + " vs " + st.sql})
				}
				if !v.do(s) {
					if v.cacheFull {
						c.Tag(fmt.Sprintf("dropped-cache-full:cap%d", capN))
						dropped = true
						break
					}
					if !c.Failed() {
						c.Fail("outcome-differs", "capacity %d: statement %d fails", capN, i+1)
					}
					v.destroy()
					return
				}
				if d := v.fullDump(); d != st.dump {
					c.Fail("contents-differ", "capacity %d: after statement %d (%s) the tables differ from the default-cache run\n small:   %s\n default: %s", capN, i+1, clip(st.sql, 80), d, st.dump)
					v.destroy()
					return
				}
			}
			if !dropped {
				resident, _ := v.store().CacheLen()
				if pagesRef > capN {
					c.NonTrivial() // the database does not fit: pages were evicted and re-read
					c.Tag("evicting")
				}
				_ = resident
				c.Tag(fmt.Sprintf("completed:cap%d", capN))
			}
			v.destroy()
		}
		c.Observe(strings.Join(c.Trace(), "|"))
	})
}
