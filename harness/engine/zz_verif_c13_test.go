package engine

import (
	"fmt"
	"os"
	"strings"
	"sync"
	"sync/atomic"
	"time"

	"github.com/mk6i/mkdb/storage"
	"verif/lib"
)

// C13 — the background flusher only ever sees statement boundaries.
//
// Deciding part: the session goroutine and the flusher goroutine run under a
// controlled scheduler (storage/zz_verif_sched.go); all interleavings of a
// statement list with a budget of timer ticks are explored up to a preemption
// bound. Monitors on every execution: (M1) every shared-state access happens
// under the store lock (any mode for the session, exclusive for the flusher);
// (M2) no page/header write between a statement's first change and the
// completion of its log append; (M3) no deadlock; (M4) final contents and the
// crash-recovered contents equal the sequential model.
//
// Supplementary part (VERIF_RACE_PASS=1, -race binary, free running with the
// real 100 ms ticker and a hook-injected delay that holds a statement open
// across several ticks): validates that the hooks see the shared accesses.

func init() { verifChecks["C13"] = runC13 }

type c13Scenario struct {
	name      string
	seed      string
	stmts     []string // statement kinds: create|insert1|insert9|update|delete|select
	ticks     int
	cache     int  // > 0: the seed is flushed and the page cache replaced by an empty one of this capacity
	locksOnly bool // scheduling points only at lock operations, header writes and statement boundaries
	failing   bool // the statement list ends in an error: pages written inside the window count only if the statement logs afterwards
	nosync    bool // the store is opened without log fsync (what csvimport -disable-wal-fsync does)
}

func c13Stmt(w *world, kind string) stmt {
	switch kind {
	case "create":
		return mkCreate("t2", worldSchemas["t2"])
	case "insert1":
		return mkInsert(w.model, "t1", 1, false)
	case "insert9":
		return mkInsert(w.model, "t1", 9, false)
	case "insert1200":
		return mkInsert(w.model, "t1", 1200, false)
	case "update-refused-at-third-row":
		// t4 holds three rows, the third one long: the UPDATE changes two rows and is refused at the third
		return stmt{SQL: fmt.Sprintf("UPDATE t4 SET e = '%s'", strings.Repeat("w", 120)), Kind: "update", Table: "t4", MustFail: true, apply: func(*mModel, int) {}}
	case "insert-refused-at-second-row":
		// the first row is accepted and changes a page, the second one is over the size limit
		n := w.model.Tables["t1"].Inserted
		return stmt{SQL: fmt.Sprintf("INSERT INTO t1 VALUES (%d, 'r%d'), (%d, '%s')", n+1, n+1, n+2, strings.Repeat("L", 420)), Kind: "insert", Table: "t1", MustFail: true, apply: func(*mModel, int) {}}
	// statements refused before they change anything: the statements after them run like any others
	case "refused-update-set-from-column":
		return stmt{SQL: "UPDATE t1 SET c = a", Kind: "refused", Table: "t1", MustFail: true, apply: func(*mModel, int) {}}
	case "refused-update-unknown-table":
		return stmt{SQL: "UPDATE nosuch SET c = 'z'", Kind: "refused", Table: "t1", MustFail: true, apply: func(*mModel, int) {}}
	case "refused-insert-unknown-table":
		return stmt{SQL: "INSERT INTO nosuch VALUES (1, 'r')", Kind: "refused", Table: "t1", MustFail: true, apply: func(*mModel, int) {}}
	case "refused-insert-too-few-values":
		return stmt{SQL: "INSERT INTO t1 VALUES (7)", Kind: "refused", Table: "t1", MustFail: true, apply: func(*mModel, int) {}}
	case "refused-delete-unknown-column":
		return stmt{SQL: "DELETE FROM t1 WHERE nosuchcol = 1", Kind: "refused", Table: "t1", MustFail: true, apply: func(*mModel, int) {}}
	case "refused-select-unknown-table":
		return stmt{SQL: "SELECT * FROM nosuch", Kind: "refused", Table: "t1", MustFail: true, apply: func(*mModel, int) {}}
	case "refused-select-unknown-column":
		return stmt{SQL: "SELECT nosuchcol FROM t1", Kind: "refused", Table: "t1", MustFail: true, apply: func(*mModel, int) {}}
	case "refused-create-duplicate":
		return stmt{SQL: "CREATE TABLE t1 (z int)", Kind: "refused", Table: "t1", MustFail: true, apply: func(*mModel, int) {}}
	case "update":
		return mkUpdate(w.model, "t1", seqPred{"<=", w.model.Tables["t1"].Inserted / 2})
	case "delete":
		return mkDelete(w.model, "t1", seqPred{">", w.model.Tables["t1"].Inserted / 2})
	case "select":
		return stmt{SQL: "SELECT * FROM t1 WHERE a > 2", Kind: "select", Table: "t1", apply: func(*mModel, int) {}}
	}
	panic(lib.HarnessError{Msg: "unknown statement kind " + kind})
}

func runC13(env *lib.Env, rep *lib.Report) {
	known := env.OpenKnown()
	_, createKnown := known["D15-create-table-unbracketed"]
	if os.Getenv("VERIF_RACE_PASS") != "" {
		c13RacePass(env, rep, createKnown)
		return
	}
	bound := 2
	scenarios := []c13Scenario{
		{"insert1", "t1x8", []string{"insert1"}, 2, 0, false, false, false},
		{"insert9", "t1x8", []string{"insert9"}, 2, 0, false, false, false},
		{"update", "t1x8", []string{"update"}, 2, 0, false, false, false},
		{"delete", "t1x8", []string{"delete"}, 2, 0, false, false, false},
		{"select", "t1x8", []string{"select"}, 2, 0, false, false, false},
		{"create", "t1x8", []string{"create"}, 2, 0, false, false, false},
		{"insert1;delete;select", "t1x8", []string{"insert1", "delete", "select"}, 1, 0, false, false, false},
		{"insert1;create;insert1/1", "t1x8", []string{"insert1", "create", "insert1"}, 1, 0, false, false, false},
		// a page cache too small for the statement's dirty set: the statement must be refused (or fit), never
		// make room by writing pages in the middle of the statement
		{"insert9/cache3", "t1x8", []string{"insert9"}, 1, 3, false, false, false},
		{"insert9/cache4", "t1x8", []string{"insert9"}, 1, 4, false, false, false},
		{"insert9/cache5", "t1x8", []string{"insert9"}, 1, 5, false, false, false},
		{"insert9/cache6", "t1x8", []string{"insert9"}, 1, 6, false, false, false},
		{"insert9;insert9/cache8", "t1x8", []string{"insert9", "insert9"}, 1, 8, false, false, false},
		// one statement with more than a thousand row operations: however it is processed internally, the lock is
		// held from its first change to the end of its log append
		{"insert1200/lock-points", "t1x8", []string{"insert1200"}, 2, 0, true, false, false},
		// a statement refused half way: whatever it does about the rows it has already changed, it must not let them
		// reach the data file ahead of log records it writes later
		{"update-refused-at-third-row", "c14:t4k3", []string{"update-refused-at-third-row"}, 2, 0, false, true, false},
		{"insert-refused-at-second-row", "t1x8", []string{"insert-refused-at-second-row"}, 2, 0, false, true, false},
		// statements refused before they change anything, then an ordinary statement: whatever the refusal left
		// behind in the session, the next statement is bracketed like any other
		{"refused-update-set-from-column;insert1", "t1x8", []string{"refused-update-set-from-column", "insert1"}, 1, 0, false, false, false},
		{"refused-update-unknown-table;update", "t1x8", []string{"refused-update-unknown-table", "update"}, 1, 0, false, false, false},
		{"refused-insert-unknown-table;insert1", "t1x8", []string{"refused-insert-unknown-table", "insert1"}, 1, 0, false, false, false},
		{"refused-insert-too-few-values;delete", "t1x8", []string{"refused-insert-too-few-values", "delete"}, 1, 0, false, false, false},
		{"refused-delete-unknown-column;insert1", "t1x8", []string{"refused-delete-unknown-column", "insert1"}, 1, 0, false, false, false},
		{"refused-select-unknown-table;insert1", "t1x8", []string{"refused-select-unknown-table", "insert1"}, 1, 0, false, false, false},
		{"refused-select-unknown-column;update", "t1x8", []string{"refused-select-unknown-column", "update"}, 1, 0, false, false, false},
		{"refused-create-duplicate;insert1", "t1x8", []string{"refused-create-duplicate", "insert1"}, 1, 0, false, false, false},
		// a database whose log has grown beyond a megabyte: an engine that does something about its log (checkpoint,
		// rotation) does it inside some statement - that statement is bracketed like any other
		{"insert1;update/long-log", "t1x8+long-log", []string{"insert1", "update"}, 1, 0, false, false, false},
		// the CREATE TABLE that makes the page table grow a level (its seventh user table)
		{"create/7th-table", "six-tables", []string{"create"}, 2, 0, false, false, false},
		// the store opened without log fsync: durability is weaker, the order "log before pages" is not
		{"insert9;update/no-fsync", "t1x8", []string{"insert9", "update"}, 1, 0, false, false, true},
	}
	if env.Thorough() {
		bound = 3
		scenarios = append(scenarios,
			c13Scenario{"insert1;delete;select/2", "t1x8", []string{"insert1", "delete", "select"}, 2, 0, false, false, false},
			c13Scenario{"update;insert9", "t1x8", []string{"update", "insert9"}, 2, 0, false, false, false},
			c13Scenario{"insert1;create;insert1", "t1x8", []string{"insert1", "create", "insert1"}, 2, 0, false, false, false},
			c13Scenario{"insert9;update;delete", "t1x8", []string{"insert9", "update", "delete"}, 3, 0, false, false, false},
			c13Scenario{"interleaved:insert9;select;insert1", "interleaved", []string{"insert9", "select", "insert1"}, 3, 0, false, false, false},
			c13Scenario{"delete;insert9;create", "t1x8", []string{"delete", "insert9", "create"}, 3, 0, false, false, false})
	}
	var names []string
	for _, s := range scenarios {
		names = append(names, fmt.Sprintf("%s (ticks %d)", s.name, s.ticks))
	}
	rep.Bounds["preemption bound"] = bound
	rep.Bounds["scenarios"] = names
	rep.Bounds["threads"] = "session goroutine + the store's flusher goroutine; ticks at statement boundaries are free, a tick or switch inside a statement costs one preemption"
	rep.Bounds["yield points"] = "RLock/RUnlock/Lock/Unlock, append, setCache, incrementLastKey, incrLSN, setPageTableRoot, header write, every log write and fsync, statement boundaries; fetch/markDirty/page writes are monitored events"
	explore(env, rep, bound, func(c *lib.Ctx) {
		sc := scenarios[c.Choose(len(scenarios), "scenario")]
		dirtySeed := c.Choose(2, "seed-flushed") == 0 // 0: seed left dirty in the cache, 1: flushed first
		c.Logf("scenario %s, seed %s (%s)", sc.name, sc.seed, map[bool]string{true: "unflushed", false: "flushed"}[dirtySeed])
		w := newWorld(c, worldOpt{})
		defer func() { w.destroy() }()
		seedFn := histSeeds[sc.seed]
		if strings.HasPrefix(sc.seed, "c14:") {
			name := strings.TrimPrefix(sc.seed, "c14:")
			seedFn = func(w *world) *world { return c14Seed(w, name) }
		}
		if sw := seedFn(w); sw == nil || c.Failed() {
			if !c.Failed() {
				c.Fail("seed-failed", "seed")
			}
			return
		} else {
			w = sw
		}
		if (!dirtySeed || sc.cache > 0) && !w.tick() {
			return
		}
		if sc.cache > 0 {
			storage.VerifReplaceCache(w.sess.RelationService, sc.cache)
		}
		if sc.nosync {
			// flush, close the store and open it again without log fsync
			if !w.tick() {
				return
			}
			old := w.sess.RelationService
			if err := guard(func() error { return old.Close() }); err != nil {
				w.failErr("close-failed", "RelationService.Close", err)
				return
			}
			storage.VerifMarkClosed(old)
			rs, err := storage.OpenRelation("d", false)
			if err != nil {
				panic(lib.HarnessError{Msg: "OpenRelation(d, false): " + err.Error()})
			}
			w.sess.RelationService = rs
		}
		sched := storage.VerifNewSched(func(n int, label string, cost []int) int { return c.ChooseCost(n, label, cost) }, sc.ticks)
		sched.LocksOnly = sc.locksOnly
		sched.LazyWindow = sc.failing
		hasCreate := false
		var execErr error
		var failedSQL string
		w.scheduled = true
		deadlock := sched.Run(func() {
			for _, kind := range sc.stmts {
				s := c13Stmt(w, kind)
				if s.Kind == "create" {
					hasCreate = true
				}
				sched.StatementBegin(s.Kind)
				err := w.exec(s.SQL)
				if err == nil {
					sched.StatementReturned()
				}
				sched.StatementEnd()
				if s.MustFail {
					if _, isPanic := err.(*panicErr); isPanic || err == nil {
						execErr, failedSQL = fmt.Errorf("expected a refusal, got %v", err), s.SQL
						return
					}
					if s.Kind == "refused" {
						continue // refused before any change: the session goes on
					}
					return
				}
				if err != nil {
					execErr, failedSQL = err, s.SQL
					return
				}
				s.apply(w.model, -1)
			}
		})
		if sched.BodyPanic != nil {
			panic(lib.HarnessError{Msg: fmt.Sprint("session body panicked: ", sched.BodyPanic)})
		}
		// compact trace
		var tr []string
		for _, e := range sched.Trace {
			if e.Kind == "TICK" || strings.HasPrefix(e.Kind, "stmt-") || e.Kind == "first-change" || e.Kind == "walEnd" ||
				strings.HasPrefix(e.Kind, "pageWrite") || e.Kind == "headerWrite" || e.Kind == "lock" || e.Kind == "unlock" || e.Kind == "rlock" || e.Kind == "runlock" {
				tr = append(tr, e.Thread[:1]+":"+e.Kind)
			}
		}
		c.Logf("schedule: %s", strings.Join(tr, " "))
		c.Observe(strings.Join(tr, " "))
		if sched.Preemptions > 0 || sched.TicksInside > 0 {
			c.NonTrivial()
			c.Tag("preempted")
		}
		if sched.TicksInside > 0 {
			c.Tag("tick-inside-statement")
		}
		knownID := ""
		if createKnown && hasCreate {
			knownID = "D15-create-table-unbracketed"
		}
		defer func() {
			if knownID != "" {
				if c.Failed() {
					c.SetKnown(knownID)
				} else {
					c.Tag("known-not-violating:" + knownID)
				}
			}
		}()
		_ = deadlock
		w.scheduled = false
		if len(sched.Problems) > 0 {
			c.Fail(sched.ProblemKinds[0], "%s", strings.Join(sched.Problems, "\n"))
			return
		}
		if execErr != nil && sc.cache > 0 && strings.Contains(execErr.Error(), "cache is full") {
			// refused for lack of room: allowed; the monitors above have seen the whole attempt
			c.Tag("refused:cache-full")
			return
		}
		if execErr != nil {
			w.failErr("statement-failed", failedSQL, execErr)
			return
		}
		if sc.failing {
			// what a half-applied statement leaves behind is C14's subject (known finding D16); here only the
			// monitors above count
			c.Tag("refused-statement-scenario")
			return
		}
		// M4: contents now, and after crash + recovery
		if sc.cache > 0 && !w.tick() {
			return // (a small cache full of dirty pages cannot even serve the SELECTs of the oracle)
		}
		if !w.checkAll("after the schedule") {
			return
		}
		w = w.recoverFrom(w.image(), false)
		if c.Failed() {
			return
		}
		w.checkAll("after the schedule + crash + recovery")
	})
}

// c13RacePass: free-running, real ticker, statements held open by sleeping in
// the log-append hook. Run from a -race binary by the driver.
func c13RacePass(env *lib.Env, rep *lib.Report, skipCreate bool) {
	dir := worldScratch()
	os.Chdir(dir)
	defer os.RemoveAll(dir)
	storage.VerifInstall(false, 0, 0, 0)
	delay := 130 * time.Millisecond
	// While a statement sleeps at the end of its log append it still holds the store lock: nothing may reach the
	// data file in that window, whatever the timing (a write seen here is never a matter of luck; not seeing
	// one may be).
	var open atomic.Bool
	var mu sync.Mutex
	var inside []string
	curStmt := ""
	storage.VerifOnWrite(func(e storage.VerifWrite) {
		switch e.Kind {
		case "walend":
			open.Store(true)
			time.Sleep(delay) // hold the statement open across at least one tick
			open.Store(false)
		case "page", "header":
			if open.Load() {
				mu.Lock()
				if len(inside) < 5 {
					inside = append(inside, fmt.Sprintf("%s write at offset %d of %s while %q had made its changes and not yet finished its log append", e.Kind, e.Off, e.Path, curStmt))
				}
				mu.Unlock()
			}
		}
	})
	if err := storage.InitStorage(); err != nil {
		panic(lib.HarnessError{Msg: err.Error()})
	}
	sess := &Session{}
	run := func(q string) {
		mu.Lock()
		curStmt = q
		mu.Unlock()
		if err := sess.ExecQuery(q); err != nil {
			panic(lib.HarnessError{Msg: q + ": " + err.Error()})
		}
	}
	run("CREATE DATABASE d")
	run("USE d")
	if skipCreate {
		// CREATE TABLE is a known racy call site (open finding D15): create the tables before
		// any flusher tick can overlap (the first tick comes after 100 ms) and keep it out of the loop
		rep.Notes = append(rep.Notes, "race pass: CREATE TABLE excluded from the overlapped statements because D15 is an open known finding")
	}
	run("CREATE TABLE t1 (a int, c varchar(255))")
	// a refused CREATE DATABASE of the selected database must not leave anything behind that writes to its file
	if err := sess.ExecQuery("CREATE DATABASE d"); err == nil {
		panic(lib.HarnessError{Msg: "CREATE DATABASE d succeeded twice"})
	}
	time.Sleep(150 * time.Millisecond)
	n := 0
	for round := 0; round < 3; round++ {
		for _, q := range []string{
			"INSERT INTO t1 VALUES (%d, 'r'), (%d, 'r'), (%d, 'r')", "UPDATE t1 SET c = 'u%d' WHERE a > 0", "SELECT * FROM t1 WHERE a > %d",
			"INSERT INTO t1 VALUES (%d, 'r'), (%d, 'r'), (%d, 'r'), (%d, 'r'), (%d, 'r'), (%d, 'r'), (%d, 'r'), (%d, 'r'), (%d, 'r')", "DELETE FROM t1 WHERE a = %d",
		} {
			args := []any{}
			for i := 0; i < strings.Count(q, "%d"); i++ {
				n++
				args = append(args, n)
			}
			run(fmt.Sprintf(q, args...))
		}
		if !skipCreate {
			run(fmt.Sprintf("CREATE TABLE x%d (a int)", round))
		}
		// SELECT is not logged: hold it open by sleeping between statements while ticks fire
		time.Sleep(120 * time.Millisecond)
	}
	// re-selecting the current database, spelled in another letter case, must not leave a second store with
	// its own flusher on the same file
	run("USE D")
	for _, q := range []string{"INSERT INTO t1 VALUES (9001, 'r')", "UPDATE t1 SET c = 'z' WHERE a = 9001", "INSERT INTO t1 VALUES (9002, 'r')", "DELETE FROM t1 WHERE a = 9001"} {
		run(q)
	}
	time.Sleep(120 * time.Millisecond)
	sess.Close()
	mu.Lock()
	if len(inside) > 0 {
		rep.AddFailure(&lib.Failure{Kind: "write-inside-statement", Detail: "free-running pass with the real 100 ms flusher: " + strings.Join(inside, "\n"), Trace: []string{"race pass"}})
	}
	mu.Unlock()
	rep.Evaluations = int64(n)
	rep.AddCase(true, 1, 1)
	rep.AddCase(true, 2, 2)
	rep.Notes = append(rep.Notes, fmt.Sprintf("race pass: %d statements overlapped with the real 100 ms flusher", 19))
}
