package engine

import (
	"fmt"

	"verif/lib"
)

// C07 — COUNT, AVG and GROUP BY compute true aggregates. Table contents: all
// multisets of <= maxRows rows over grouping values whose printed forms
// concatenate ambiguously (g1 in {1,12}, g2 in {2,23,3}) and v in {1,4,NULL},
// in EVERY row order (permutation); queries: select lists of <= 4 items from
// {g1, g2, aliased g, qualified g, COUNT(*), COUNT(v), AVG(v), AVG(w)} with
// GROUP BY lists of 0..2 columns spelled by name / qualifier / alias, also on
// top of WHERE and of a JOIN.

func init() { verifChecks["C07"] = runC07 }

var c07Cols = []mCol{{"g1", "int"}, {"g2", "int"}, {"v", "int"}, {"w", "int"}}

func c07Universe() [][]any {
	var u [][]any
	for _, g1 := range []int64{1, 12} {
		for _, g2 := range []int64{2, 23, 3} {
			for _, v := range []any{int64(1), int64(4), nil} {
				w := int64(3)
				if v != nil {
					w = v.(int64) * 3
				}
				u = append(u, []any{g1, g2, v, w})
			}
		}
	}
	return u
}

func permutations(rows [][]any, f func([][]any)) {
	n := len(rows)
	idx := make([]int, n)
	for i := range idx {
		idx[i] = i
	}
	seen := map[string]bool{}
	var rec func(k int)
	rec = func(k int) {
		if k == n {
			out := make([][]any, n)
			for i, j := range idx {
				out[i] = rows[j]
			}
			key := fmt.Sprint(out)
			if !seen[key] {
				seen[key] = true
				f(out)
			}
			return
		}
		for i := k; i < n; i++ {
			idx[k], idx[i] = idx[i], idx[k]
			rec(k + 1)
			idx[k], idx[i] = idx[i], idx[k]
		}
	}
	rec(0)
}

type c07Q struct {
	q      *qQuery
	family string
}

func c07Queries(thorough bool) []c07Q {
	var out []c07Q
	from := []qJoin{{table: "t"}}
	aggs := []qItem{
		{kind: "count*"}, {kind: "count", col: qRef{"", "v"}}, {kind: "avg", col: qRef{"", "w"}}, {kind: "avg", col: qRef{"t", "g2"}, alias: "m"}, {kind: "count*", alias: "n"},
	}
	type gcol struct {
		item   qItem
		spells []qRef
	}
	gcols := []gcol{
		{qItem{kind: "col", col: qRef{"", "g1"}}, []qRef{{"", "g1"}}}, // (GROUP BY t.g1 for an unqualified select item is rejected by the parser: grammar limit)
		{qItem{kind: "col", col: qRef{"", "g2"}}, []qRef{{"", "g2"}}},
		{qItem{kind: "col", col: qRef{"t", "g1"}}, []qRef{{"t", "g1"}, {"", "g1"}}},
		{qItem{kind: "col", col: qRef{"", "g2"}, alias: "x"}, []qRef{{"", "x"}, {"", "g2"}}},
	}
	wheres := []*qCond{nil, {atoms: []qAtom{{qc("", "g2"), ql(int64(3)), "!="}}}, {atoms: []qAtom{{qc("", "w"), ql(int64(1000)), ">"}}}}
	// implicit aggregation (no GROUP BY): every ordered list of 1..2 aggregates (thorough 3)
	maxAgg := 2
	if thorough {
		maxAgg = 3
	}
	var aggLists [][]qItem
	var recA func(cur []qItem)
	recA = func(cur []qItem) {
		if len(cur) > 0 {
			aggLists = append(aggLists, append([]qItem{}, cur...))
		}
		if len(cur) == maxAgg {
			return
		}
		for _, a := range aggs {
			recA(append(cur, a))
		}
	}
	recA(nil)
	for _, l := range aggLists {
		for _, w := range wheres {
			out = append(out, c07Q{&qQuery{items: l, from: from, where: w, limit: -1, offset: -1}, "implicit-group"})
		}
	}
	// LIMIT / OFFSET apply to the result of the aggregation (one row), never to its input
	for _, l := range aggLists {
		if len(l) > 1 && len(l) < maxAgg {
			continue
		}
		for _, lo := range [][3]int{{1, -1, 1}, {2, -1, 1}, {1, 0, 1}, {0, -1, 1}, {-1, 1, 1}, {1, 1, 0}} {
			out = append(out, c07Q{&qQuery{items: l, from: from, limit: lo[0], offset: lo[1], limitFirst: lo[2] == 1}, "implicit-group+limit"})
		}
	}
	for _, lo := range [][3]int{{1, -1, 1}, {1, 1, 1}, {-1, 1, 1}} {
		out = append(out, c07Q{&qQuery{items: []qItem{{kind: "col", col: qRef{"", "g1"}}, {kind: "count*"}}, from: from, groupBy: []qRef{{"", "g1"}}, orderBy: []qSort{{qRef{"", "g1"}, ""}}, limit: lo[0], offset: lo[1], limitFirst: true}, "group-by+order+limit"})
	}
	// GROUP BY with LIMIT / OFFSET and no ORDER BY: whichever groups come back, each is a whole group
	for _, items := range [][]qItem{
		{{kind: "col", col: qRef{"", "g1"}}, {kind: "count*"}},
		{{kind: "col", col: qRef{"", "g2"}}, {kind: "count", col: qRef{"", "v"}}, {kind: "count*"}},
		{{kind: "count*"}, {kind: "col", col: qRef{"", "g1"}}, {kind: "col", col: qRef{"", "g2"}}},
	} {
		var gb []qRef
		for _, it := range items {
			if it.kind == "col" {
				gb = append(gb, it.col)
			}
		}
		for _, lo := range [][3]int{{1, -1, 1}, {2, -1, 1}, {1, 1, 1}, {-1, 1, 1}, {1, 0, 0}} {
			out = append(out, c07Q{&qQuery{items: items, from: from, groupBy: gb, limit: lo[0], offset: lo[1], limitFirst: lo[2] == 1}, "group-by+limit"})
		}
	}
	// explicit grouping: 1..2 grouping columns (distinct base columns) in every position among 1..2 aggregates
	base := func(g gcol) string { return g.item.col.name }
	for gi, ga := range gcols {
		var sets [][]gcol
		sets = append(sets, []gcol{ga})
		for gj, gb := range gcols {
			if gj != gi && base(ga) != base(gb) {
				sets = append(sets, []gcol{ga, gb})
			}
		}
		for _, set := range sets {
			for ali, al := range aggLists {
				if len(al) > 2 || (len(al) == 2 && !thorough && ali%4 != 1) {
					continue // quick tier: every single aggregate and a quarter of the pairs per grouping set
				}
				// interleavings: grouping columns first, last, and alternating
				var orders [][]qItem
				var gs []qItem
				for _, g := range set {
					gs = append(gs, g.item)
				}
				orders = append(orders, append(append([]qItem{}, gs...), al...), append(append([]qItem{}, al...), gs...))
				if len(set) == 2 {
					orders = append(orders, append(append([]qItem{gs[0]}, al...), gs[1]))
				}
				// every spelling of the GROUP BY list, in both column orders
				nsp := 1
				for _, g := range set {
					nsp *= len(g.spells)
				}
				for sp := 0; sp < nsp; sp++ {
					var gb []qRef
					x := sp
					for _, g := range set {
						gb = append(gb, g.spells[x%len(g.spells)])
						x /= len(g.spells)
					}
					gbs := [][]qRef{gb}
					if len(gb) == 2 {
						gbs = append(gbs, []qRef{gb[1], gb[0]})
					}
					for _, gbl := range gbs {
						for _, items := range orders {
							for wi, w := range wheres {
								if wi > 0 && (sp > 0 || len(al) > 1) {
									continue
								}
								out = append(out, c07Q{&qQuery{items: items, from: from, where: w, groupBy: gbl, limit: -1, offset: -1}, fmt.Sprintf("group-by/%d-columns", len(gbl))})
							}
						}
					}
				}
			}
		}
		// GROUP BY without any aggregate function still yields one row per group
		for _, set := range sets {
			var gs []qItem
			var gb []qRef
			for _, g := range set {
				gs = append(gs, g.item)
				gb = append(gb, g.spells[0])
			}
			out = append(out, c07Q{&qQuery{items: gs, from: from, groupBy: gb, limit: -1, offset: -1}, "group-by/no-aggregate"})
		}
	}
	// an alias that collides with the name of another grouped column: the statement may be rejected
	// as ambiguous, but if it is answered every grouping column must take part
	for _, v := range [][]qItem{
		{{kind: "col", col: qRef{"", "g1"}, alias: "g2"}, {kind: "col", col: qRef{"", "g2"}}, {kind: "count*"}},
		{{kind: "col", col: qRef{"", "g2"}, alias: "g1"}, {kind: "col", col: qRef{"", "g1"}}, {kind: "count", col: qRef{"", "v"}}},
		{{kind: "count*"}, {kind: "col", col: qRef{"", "g1"}, alias: "g2"}, {kind: "col", col: qRef{"t", "g2"}}},
	} {
		for _, gb := range [][]qRef{{{"", "g1"}, {"", "g2"}}, {{"", "g2"}, {"", "g1"}}} {
			out = append(out, c07Q{&qQuery{items: v, from: from, groupBy: gb, limit: -1, offset: -1, mayReject: true}, "group-by/alias-collides-with-column"})
		}
	}
	// ... and an aggregate whose alias is the name of a grouping column (in front of it and behind it): rejected as
	// ambiguous, or answered with the real column as the grouping column
	for _, v := range [][]qItem{
		{{kind: "count*", alias: "g1"}, {kind: "col", col: qRef{"", "g1"}}},
		{{kind: "col", col: qRef{"", "g1"}}, {kind: "count*", alias: "g1"}},
		{{kind: "count", col: qRef{"", "v"}, alias: "g2"}, {kind: "col", col: qRef{"", "g1"}}, {kind: "col", col: qRef{"", "g2"}}},
		{{kind: "avg", col: qRef{"", "w"}, alias: "g1"}, {kind: "col", col: qRef{"t", "g1"}}},
	} {
		gb := []qRef{{"", "g1"}}
		if len(v) == 3 {
			gb = []qRef{{"", "g1"}, {"", "g2"}}
		}
		if v[len(v)-1].col.qual == "t" {
			gb = []qRef{{"t", "g1"}}
		}
		out = append(out, c07Q{&qQuery{items: v, from: from, groupBy: gb, limit: -1, offset: -1, mayReject: true}, "group-by/aggregate-alias-collides-with-column"})
	}
	// on top of a JOIN: group t by g1, counting matching rows of a second table
	joins := []qJoin{{table: "t"}, {kind: "JOIN", table: "s", on: &qCond{atoms: []qAtom{{qc("t", "g2"), qc("s", "k"), "="}}}}}
	ljoins := []qJoin{{table: "t"}, {kind: "LEFT JOIN", table: "s", on: &qCond{atoms: []qAtom{{qc("t", "g2"), qc("s", "k"), "="}}}}}
	for _, js := range [][]qJoin{joins, ljoins} {
		out = append(out,
			c07Q{&qQuery{items: []qItem{{kind: "col", col: qRef{"t", "g1"}}, {kind: "count*"}, {kind: "count", col: qRef{"s", "z"}}}, from: js, groupBy: []qRef{{"", "g1"}}, limit: -1, offset: -1}, "join+group-by"},
			c07Q{&qQuery{items: []qItem{{kind: "col", col: qRef{"t", "g1"}, alias: "gg"}, {kind: "col", col: qRef{"s", "k"}}, {kind: "count*"}}, from: js, groupBy: []qRef{{"", "gg"}, {"s", "k"}}, limit: -1, offset: -1}, "join+group-by"},
			c07Q{&qQuery{items: []qItem{{kind: "count*"}, {kind: "avg", col: qRef{"t", "w"}}}, from: js, limit: -1, offset: -1}, "join+implicit-group"})
	}
	// a joined table that shares its column names with t: every item and every grouping column is qualified
	for _, kind := range []string{"JOIN", "LEFT JOIN", "RIGHT JOIN"} {
		on2 := []qJoin{{table: "t"}, {kind: kind, table: "s2", on: &qCond{atoms: []qAtom{{qc("t", "g2"), qc("s2", "g2"), "="}}}}}
		on1 := []qJoin{{table: "t"}, {kind: kind, table: "s2", on: &qCond{atoms: []qAtom{{qc("t", "g1"), qc("s2", "g1"), "="}}}}}
		out = append(out,
			c07Q{&qQuery{items: []qItem{{kind: "col", col: qRef{"t", "g1"}}, {kind: "count", col: qRef{"s2", "g1"}}}, from: on2, groupBy: []qRef{{"t", "g1"}}, limit: -1, offset: -1}, "join+shared-column-names"},
			c07Q{&qQuery{items: []qItem{{kind: "col", col: qRef{"s2", "g1"}}, {kind: "count", col: qRef{"t", "g1"}}, {kind: "count*"}}, from: on2, groupBy: []qRef{{"s2", "g1"}}, limit: -1, offset: -1}, "join+shared-column-names"},
			c07Q{&qQuery{items: []qItem{{kind: "col", col: qRef{"s2", "g1"}}, {kind: "col", col: qRef{"t", "g1"}}, {kind: "count*"}}, from: on2, groupBy: []qRef{{"s2", "g1"}, {"t", "g1"}}, limit: -1, offset: -1}, "join+shared-column-names"},
			c07Q{&qQuery{items: []qItem{{kind: "count", col: qRef{"s2", "g2"}}, {kind: "count", col: qRef{"t", "g2"}}, {kind: "count*"}}, from: on1, limit: -1, offset: -1}, "join+shared-column-names"},
			c07Q{&qQuery{items: []qItem{{kind: "count", col: qRef{"t", "g2"}}, {kind: "col", col: qRef{"s2", "g2"}}, {kind: "col", col: qRef{"t", "g2"}, alias: "x"}}, from: on1, groupBy: []qRef{{"s2", "g2"}, {"", "x"}}, limit: -1, offset: -1}, "join+shared-column-names"})
	}
	return out
}

func runC07(env *lib.Env, rep *lib.Report) {
	lib.SilenceStderr()
	defer lib.RestoreStderr()
	r := &queryRunner{env: env, rep: rep, fails: map[string]int{}, known: env.OpenKnown()}
	if env.Replay != "" {
		c05Replay(env, rep)
		return
	}
	maxRows := 3
	if env.Thorough() {
		maxRows = 4
	}
	_ = maxRows
	u := c07Universe()
	qs := c07Queries(env.Thorough())
	rep.Bounds["table contents"] = fmt.Sprintf("every multiset of <= %d rows over %d rows (g1 in {1,12} x g2 in {2,23,3} x v in {1,4,NULL}), in every row order, plus the empty table", maxRows, len(u))
	rep.Bounds["queries per content"] = len(qs)
	lib.Say("C07: %d queries per content", len(qs))
	rep.Bounds["second table for the JOIN family"] = "s(k int, z int) = [(2,1),(23,NULL),(23,5)]"
	sRows := [][]any{{int64(2), int64(1)}, {int64(23), nil}, {int64(23), int64(5)}}
	sCols := []mCol{{"k", "int"}, {"z", "int"}}
	rep.Bounds["third table (shares its column names with t)"] = "s2(g1 int, g2 int) = [(1,2),(12,NULL),(7,23),(NULL,3)]"
	s2Rows := [][]any{{int64(1), int64(2)}, {int64(12), nil}, {int64(7), int64(23)}, {nil, int64(3)}}
	s2Cols := []mCol{{"g1", "int"}, {"g2", "int"}}
	_, d11 := r.known["D11-avg-running-rounded"]
	n := 0
	var multisets [][][]any
	multisets = append(multisets, [][]any{})
	var rec func(start int, cur [][]any)
	rec = func(start int, cur [][]any) {
		if len(cur) > 0 {
			multisets = append(multisets, append([][]any{}, cur...))
		}
		if len(cur) == maxRows {
			return
		}
		for i := start; i < len(u); i++ {
			rec(i, append(cur, u[i]))
		}
	}
	rec(0, nil)
	var worlds int64
	stride3, stride4 := 4, 0
	if env.Thorough() {
		stride3, stride4 = 1, 12
	}
	rep.Bounds["sub-enumeration"] = fmt.Sprintf("all multisets of <= 2 rows; every %d-th multiset of 3 rows; %s (enumeration order, deterministic); each in every row order", stride3, map[bool]string{true: fmt.Sprintf("every %d-th multiset of 4 rows", stride4), false: "no multisets of 4 rows"}[env.Thorough()])
	cnt := map[int]int{}
	for _, ms := range multisets {
		cnt[len(ms)]++
		if len(ms) == 3 && cnt[3]%stride3 != 0 {
			continue
		}
		if len(ms) == 4 && (stride4 == 0 || cnt[4]%stride4 != 0) {
			continue
		}
		n++
		if n%env.NShards != env.Shard {
			continue
		}
		permutations(ms, func(rows [][]any) {
			worlds++
			body := func(c *lib.Ctx) {
				qw := newQWorld(c, []*qTable{{name: "t", cols: c07Cols, rows: rows}, {name: "s", cols: sCols, rows: sRows}, {name: "s2", cols: s2Cols, rows: s2Rows}})
				defer qw.w.destroy()
				for _, q := range qs {
					known := ""
					if d11 {
						for _, it := range q.q.items {
							if it.kind == "avg" {
								known = "D11-avg-running-rounded"
							}
						}
					}
					r.check(qw, q.q, q.family, known)
				}
			}
			x := lib.RunOnce(body, nil)
			if x.Fail != nil {
				rep.AddFailure(x.Fail)
			}
		})
	}
	for k, v := range r.fails {
		lib.Say("C07 failure class %s: %d", k, v)
	}
	// grouping by a varchar column holding NULL, the empty string and strings that print like NULL:
	// every multiset of <= 3 rows over s in {NULL, '', 'a', '<nil>', '0:|'} in every row order
	sVals := []any{nil, "", "a", "<nil>", "0:|"}
	var sSets [][][]any
	var recS func(start int, cur [][]any)
	recS = func(start int, cur [][]any) {
		if len(cur) > 0 {
			sSets = append(sSets, append([][]any{}, cur...))
		}
		if len(cur) == 3 {
			return
		}
		for i := start; i < len(sVals); i++ {
			recS(i, append(cur, []any{sVals[i], int64(len(cur) + 1)}))
		}
	}
	recS(0, nil)
	sQueries := []*qQuery{
		{items: []qItem{{kind: "col", col: qRef{"", "s"}}, {kind: "count*"}}, from: []qJoin{{table: "ts"}}, groupBy: []qRef{{"", "s"}}, limit: -1, offset: -1},
		{items: []qItem{{kind: "count", col: qRef{"", "v"}}, {kind: "col", col: qRef{"", "s"}, alias: "x"}}, from: []qJoin{{table: "ts"}}, groupBy: []qRef{{"", "x"}}, limit: -1, offset: -1},
		{items: []qItem{{kind: "col", col: qRef{"", "s"}}, {kind: "col", col: qRef{"", "v"}}, {kind: "count*"}}, from: []qJoin{{table: "ts"}}, groupBy: []qRef{{"", "s"}, {"", "v"}}, limit: -1, offset: -1},
		{items: []qItem{{kind: "col", col: qRef{"", "s"}}}, from: []qJoin{{table: "ts"}}, groupBy: []qRef{{"", "s"}}, limit: -1, offset: -1},
	}
	for _, ms := range sSets {
		n++
		if n%env.NShards != env.Shard {
			continue
		}
		permutations(ms, func(rows [][]any) {
			worlds++
			body := func(c *lib.Ctx) {
				qw := newQWorld(c, []*qTable{{name: "ts", cols: []mCol{{"s", "varchar"}, {"v", "int"}}, rows: rows}})
				defer qw.w.destroy()
				for _, q := range sQueries {
					r.check(qw, q, "group-by/varchar-null-empty", "")
				}
			}
			x := lib.RunOnce(body, nil)
			if x.Fail != nil {
				rep.AddFailure(x.Fail)
			}
		})
	}
	// AVG over BIGINT values near the top of the range in which float64 still holds every integer (2^53):
	// one- and two-row groups, so that the known finding about re-rounding (three or more rows) stays out
	if env.Shard == 0 {
		const p52 = int64(1) << 52
		bigVals := []int64{p52 + 1, p52 + 3, 2*p52 - 1, 2*p52 - 3, p52, 7, -(p52 + 1), -(2*p52 - 1)}
		var sets [][][]any
		for i, a := range bigVals {
			sets = append(sets, [][]any{{int64(1), a}})
			for _, b := range bigVals[i:] {
				if (a < 0) == (b < 0) && (a%2 == b%2) { // same sign and parity: the sum stays below 2^54 and even, the average is an integer
					sets = append(sets, [][]any{{int64(1), a}, {int64(1), b}}, [][]any{{int64(1), a}, {int64(2), b}})
				}
			}
		}
		bq := []*qQuery{
			{items: []qItem{{kind: "avg", col: qRef{"", "w"}}}, from: []qJoin{{table: "tb"}}, limit: -1, offset: -1},
			{items: []qItem{{kind: "col", col: qRef{"", "g"}}, {kind: "avg", col: qRef{"", "w"}}, {kind: "count*"}}, from: []qJoin{{table: "tb"}}, groupBy: []qRef{{"", "g"}}, limit: -1, offset: -1},
		}
		for _, rows := range sets {
			rows := rows
			worlds++
			x := lib.RunOnce(func(c *lib.Ctx) {
				qw := newQWorld(c, []*qTable{{name: "tb", cols: []mCol{{"g", "int"}, {"w", "bigint"}}, rows: rows}})
				defer qw.w.destroy()
				for _, q := range bq {
					r.check(qw, q, "avg/large-bigint", "")
				}
			}, nil)
			if x.Fail != nil {
				rep.AddFailure(x.Fail)
			}
		}
		rep.Bounds["large BIGINT family"] = fmt.Sprintf("%d one- and two-row tables over values around 2^52..2^53 (both signs), AVG with and without GROUP BY", len(sets))
	}
	// aggregates over joins of tables of every width 1..5 x 1..3 (how many columns a row has decides how its storage is
	// laid out and shared when rows are glued together): several right rows per left row, grouped by a column of each side
	if env.Shard == 5%env.NShards {
		var pairs int
		for ln := 1; ln <= 5; ln++ {
			for rn := 1; rn <= 3; rn++ {
				pairs++
				var lc, rc []mCol
				for i := 0; i < ln; i++ {
					lc = append(lc, mCol{fmt.Sprintf("c%d", i), "int"})
				}
				for i := 0; i < rn; i++ {
					rc = append(rc, mCol{fmt.Sprintf("d%d", i), "int"})
				}
				var lrows, rrows [][]any
				for r := 1; r <= 2; r++ {
					row := make([]any, ln)
					for i := range row {
						row[i] = int64(r*10 + i)
					}
					row[0] = int64(r)
					lrows = append(lrows, row)
				}
				for r, k := range []int64{1, 1, 2, 3} {
					row := make([]any, rn)
					for i := range row {
						row[i] = int64(100*(r+1) + i)
					}
					row[0] = k
					rrows = append(rrows, row)
				}
				last := fmt.Sprintf("d%d", rn-1)
				wq := []*qQuery{
					{items: []qItem{{kind: "col", col: qRef{"wl", "c0"}}, {kind: "col", col: qRef{"wr", last}}, {kind: "count*"}}, from: []qJoin{{table: "wl"}, {kind: "JOIN", table: "wr", on: &qCond{atoms: []qAtom{{qc("wl", "c0"), qc("wr", "d0"), "<="}}}}},
						groupBy: []qRef{{"wl", "c0"}, {"wr", last}}, limit: -1, offset: -1},
					{items: []qItem{{kind: "col", col: qRef{"wl", "c0"}}, {kind: "count*"}, {kind: "count", col: qRef{"wr", last}}}, from: []qJoin{{table: "wl"}, {kind: "LEFT JOIN", table: "wr", on: &qCond{atoms: []qAtom{{qc("wl", "c0"), qc("wr", "d0"), "="}}}}},
						groupBy: []qRef{{"wl", "c0"}}, limit: -1, offset: -1},
					{items: []qItem{{kind: "col", col: qRef{"wr", last}}, {kind: "count*"}}, from: []qJoin{{table: "wl"}, {kind: "RIGHT JOIN", table: "wr", on: &qCond{atoms: []qAtom{{qc("wl", "c0"), qc("wr", "d0"), "="}}}}},
						groupBy: []qRef{{"wr", last}}, limit: -1, offset: -1},
				}
				worlds++
				x := lib.RunOnce(func(c *lib.Ctx) {
					qw := newQWorld(c, []*qTable{{name: "wl", cols: lc, rows: lrows}, {name: "wr", cols: rc, rows: rrows}})
					defer qw.w.destroy()
					for _, q := range wq {
						r.check(qw, q, "join/table-widths", "")
					}
				}, nil)
				if x.Fail != nil {
					rep.AddFailure(x.Fail)
				}
			}
		}
		rep.Bounds["join widths"] = fmt.Sprintf("%d pairs of tables of 1..5 x 1..3 columns, 2 left rows x 4 right rows, three grouped join queries each", pairs)
	}
	// AVG over negative and mixed-sign values (rounding to the nearest integer on both sides of zero): every
	// multiset of 1..3 rows over w in {-7, -3, -2, -1, 2, 5}, in every row order, with and without GROUP BY
	if env.Shard == 4%env.NShards {
		negVals := []int64{-7, -3, -2, -1, 2, 5}
		var sets [][][]any
		var recN func(start int, cur [][]any)
		recN = func(start int, cur [][]any) {
			if len(cur) > 0 {
				sets = append(sets, append([][]any{}, cur...))
			}
			if len(cur) == 3 {
				return
			}
			for i := start; i < len(negVals); i++ {
				recN(i, append(cur, []any{int64(1 + len(cur)%2), negVals[i]}))
			}
		}
		recN(0, nil)
		nq := []*qQuery{
			{items: []qItem{{kind: "avg", col: qRef{"", "w"}}, {kind: "count*"}}, from: []qJoin{{table: "tn"}}, limit: -1, offset: -1},
			{items: []qItem{{kind: "col", col: qRef{"", "g"}}, {kind: "avg", col: qRef{"", "w"}}}, from: []qJoin{{table: "tn"}}, groupBy: []qRef{{"", "g"}}, limit: -1, offset: -1},
		}
		for _, ms := range sets {
			permutations(ms, func(rows [][]any) {
				worlds++
				x := lib.RunOnce(func(c *lib.Ctx) {
					qw := newQWorld(c, []*qTable{{name: "tn", cols: []mCol{{"g", "int"}, {"w", "int"}}, rows: rows}})
					defer qw.w.destroy()
					for _, q := range nq {
						known := ""
						if d11 {
							known = "D11-avg-running-rounded"
						}
						r.check(qw, q, "avg/negative-values", known)
					}
				}, nil)
				if x.Fail != nil {
					rep.AddFailure(x.Fail)
				}
			})
		}
		rep.Bounds["negative AVG family"] = fmt.Sprintf("%d multisets of 1..3 rows over w in %v, every row order, AVG with and without GROUP BY", len(sets), negVals)
	}
	// many grouping columns: a table of six columns, every pair and triple of rows that agree everywhere except in one
	// (or two) columns, grouped by 3..6 columns in two orders (rows fall into one group only if all grouping values
	// are equal - also the fifth and the sixth)
	if env.Shard == 3%env.NShards {
		base := []any{int64(1), int64(2), "x", true, int64(5), int64(6)}
		alt := []any{int64(9), int64(8), "y", false, int64(7), int64(4)}
		cols6 := []mCol{{"c1", "int"}, {"c2", "bigint"}, {"c3", "varchar"}, {"c4", "boolean"}, {"c5", "int"}, {"c6", "int"}}
		var sets [][][]any
		for d1 := 0; d1 < 6; d1++ {
			r2 := append([]any{}, base...)
			r2[d1] = alt[d1]
			sets = append(sets, [][]any{base, r2}, [][]any{base, r2, base})
			for d2 := d1 + 1; d2 < 6; d2++ {
				r3 := append([]any{}, base...)
				r3[d2] = alt[d2]
				sets = append(sets, [][]any{base, r2, r3}, [][]any{r3, base, r2, r3})
			}
		}
		var gq []*qQuery
		for n := 3; n <= 6; n++ {
			for _, rev := range []bool{false, true} {
				var items []qItem
				var gb []qRef
				for i := 0; i < n; i++ {
					k := i
					if rev {
						k = 5 - i
					}
					name := fmt.Sprintf("c%d", k+1)
					items = append(items, qItem{kind: "col", col: qRef{"", name}})
					gb = append(gb, qRef{"", name})
				}
				items = append(items, qItem{kind: "count*"})
				gq = append(gq, &qQuery{items: items, from: []qJoin{{table: "t6"}}, groupBy: gb, limit: -1, offset: -1})
				// the same without an aggregate, and with the count in front
				gq = append(gq, &qQuery{items: items[:n], from: []qJoin{{table: "t6"}}, groupBy: gb, limit: -1, offset: -1})
				gq = append(gq, &qQuery{items: append([]qItem{{kind: "count", col: qRef{"", "c1"}}}, items[:n]...), from: []qJoin{{table: "t6"}}, groupBy: gb, limit: -1, offset: -1})
			}
		}
		for _, rows := range sets {
			rows := rows
			worlds++
			x := lib.RunOnce(func(c *lib.Ctx) {
				qw := newQWorld(c, []*qTable{{name: "t6", cols: cols6, rows: rows}})
				defer qw.w.destroy()
				for _, q := range gq {
					r.check(qw, q, "group-by/many-columns", "")
				}
			}, nil)
			if x.Fail != nil {
				rep.AddFailure(x.Fail)
			}
		}
		rep.Bounds["many grouping columns"] = fmt.Sprintf("%d tables of 2..4 rows over six columns (rows differing in one or two columns), %d queries grouping by 3..6 columns", len(sets), len(gq))
	}
	// grouping by a BOOLEAN and by a BIGINT column (NULLs included): every multiset of <= 3 rows over
	// f in {true, false, NULL} x g in {1, 2^40} in every row order
	if env.Shard == 2%env.NShards {
		var fbUniverse [][]any
		for _, f := range []any{true, false, nil} {
			for _, g := range []any{int64(1), int64(1) << 40} {
				fbUniverse = append(fbUniverse, []any{f, g})
			}
		}
		var fbSets [][][]any
		var recF func(start int, cur [][]any)
		recF = func(start int, cur [][]any) {
			if len(cur) > 0 {
				fbSets = append(fbSets, append([][]any{}, cur...))
			}
			if len(cur) == 3 {
				return
			}
			for i := start; i < len(fbUniverse); i++ {
				recF(i, append(cur, append(append([]any{}, fbUniverse[i]...), int64(len(cur)+1))))
			}
		}
		recF(0, nil)
		fbFrom := []qJoin{{table: "tf"}}
		fbQueries := []*qQuery{
			{items: []qItem{{kind: "col", col: qRef{"", "f"}}, {kind: "count*"}}, from: fbFrom, groupBy: []qRef{{"", "f"}}, limit: -1, offset: -1},
			{items: []qItem{{kind: "count", col: qRef{"", "v"}}, {kind: "col", col: qRef{"", "g"}}}, from: fbFrom, groupBy: []qRef{{"", "g"}}, limit: -1, offset: -1},
			{items: []qItem{{kind: "col", col: qRef{"", "f"}}, {kind: "col", col: qRef{"", "g"}}, {kind: "count*"}, {kind: "avg", col: qRef{"", "v"}}}, from: fbFrom, groupBy: []qRef{{"", "f"}, {"", "g"}}, limit: -1, offset: -1},
			{items: []qItem{{kind: "col", col: qRef{"", "g"}}, {kind: "col", col: qRef{"", "f"}, alias: "x"}}, from: fbFrom, groupBy: []qRef{{"", "g"}, {"", "x"}}, limit: -1, offset: -1},
		}
		for _, ms := range fbSets {
			permutations(ms, func(rows [][]any) {
				worlds++
				x := lib.RunOnce(func(c *lib.Ctx) {
					qw := newQWorld(c, []*qTable{{name: "tf", cols: []mCol{{"f", "boolean"}, {"g", "bigint"}, {"v", "int"}}, rows: rows}})
					defer qw.w.destroy()
					for _, q := range fbQueries {
						r.check(qw, q, "group-by/boolean-bigint", "")
					}
				}, nil)
				if x.Fail != nil {
					rep.AddFailure(x.Fail)
				}
			})
		}
		rep.Bounds["boolean / bigint grouping family"] = fmt.Sprintf("%d multisets of <= 3 rows over f in {true,false,NULL} x g in {1,2^40}, every row order, 4 GROUP BY queries", len(fbSets))
	}
	// long select lists with two AVG items over columns whose names continue each other with digits (v, v1, v11),
	// at every pair of positions out of {0, 1, 2, 10, 11, 12}: each AVG keeps its own running state
	if env.Shard == 4%env.NShards {
		mRows := [][]any{{int64(1), int64(10), int64(100), int64(1000)}, {int64(2), int64(7), int64(9), int64(11)}, {int64(1), int64(20), int64(300), int64(5000)},
			{int64(2), int64(3), int64(19), int64(1)}}
		mFrom := []qJoin{{table: "m"}}
		x := lib.RunOnce(func(c *lib.Ctx) {
			worlds++
			qw := newQWorld(c, []*qTable{{name: "m", cols: []mCol{{"g", "int"}, {"v", "int"}, {"v1", "int"}, {"v11", "int"}}, rows: mRows}})
			defer qw.w.destroy()
			pos := []int{0, 1, 2, 10, 11, 12}
			for _, a := range []string{"v", "v1", "v11"} {
				for _, b := range []string{"v", "v1", "v11"} {
					for pi, i := range pos {
						for _, j := range pos[pi+1:] {
							items := make([]qItem, j+1)
							for k := range items {
								items[k] = qItem{kind: "count*"}
							}
							items[i] = qItem{kind: "avg", col: qRef{"", a}}
							items[j] = qItem{kind: "avg", col: qRef{"", b}}
							// (groups of two rows: the known finding about re-rounding needs three)
							if j > 2 {
								items = append([]qItem{}, items...)
								for k := range items {
									if k != i && k != j {
										items[k] = qItem{kind: "col", col: qRef{"", "g"}}
										break
									}
								}
							}
							r.check(qw, &qQuery{items: items, from: mFrom, groupBy: []qRef{{"", "g"}}, limit: -1, offset: -1}, "avg/long-select-list", "")
						}
					}
				}
			}
		}, nil)
		if x.Fail != nil {
			rep.AddFailure(x.Fail)
		}
	}
	rep.Bounds["long select lists"] = "m(g,v,v1,v11), 2 groups of 2 rows: two AVG items over every pair of {v,v1,v11} at every pair of positions out of {0,1,2,10,11,12} (COUNT(*) elsewhere), GROUP BY g"
	rep.Bounds["varchar grouping family"] = "every multiset of <= 3 rows over s in {NULL, '', 'a', '<nil>', '0:|'} in every row order, 4 GROUP BY queries"
	rep.Bounds["databases built (this shard)"] = worlds
	rep.Bounds["queries executed (this shard)"] = r.nQuery
}
