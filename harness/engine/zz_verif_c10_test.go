package engine

import (
	"fmt"
	"reflect"
	"strings"

	"github.com/mk6i/mkdb/sql"
	"verif/lib"
)

// C10 — parsing is faithful. Statement trees are built as values of the
// parser's own exported AST types, rendered to SQL text by an independent
// renderer in canonical form and in every rendering variation (keyword case,
// whitespace / line breaks, tight punctuation, optional keywords AS / INNER /
// ASC, delimited identifiers), parsed through engine.parseSQL and compared
// structurally after a normalisation that drops token positions and flattens
// same-operator AND/OR chains (the property fixes grouping and order, not
// associativity).

func init() { verifChecks["C10"] = runC10 }

// ---- rendering ----

type rtok struct {
	text string
	kind byte // k keyword, i identifier, s string literal, n number/bool literal, p punctuation, o operator
	opt  byte // 0 always; 'A' optional AS; 'I' optional INNER; 'C' optional ASC
}

type rendering struct {
	name    string
	kw      int // 0 upper, 1 lower, 2 mixed
	sep     string
	tight   bool   // no blanks around punctuation and operators
	optOn   bool   // optional keywords present
	delimID bool   // identifiers in double quotes
	semi    string // statement terminator appended as the console does ("" = none)
	zeroPad bool   // integer literals written with a leading zero (still decimal)
}

var c10Renderings = []rendering{
	{"canonical", 0, " ", false, true, false, "", false},
	{"lower-case keywords", 1, " ", false, true, false, "", false},
	{"mixed-case keywords", 2, " ", false, true, false, "", false},
	{"line break between tokens", 0, "\n", false, true, false, "", false},
	{"tabs and blanks", 1, " \t  ", false, true, false, "", false},
	{"tight punctuation", 0, " ", true, true, false, "", false},
	{"optional keywords omitted", 0, " ", false, false, false, "", false},
	{"delimited identifiers", 1, " ", false, true, true, "", false},
	{"tight + omitted + CRLF", 2, "\r\n", true, false, false, "", false},
	{"trailing semicolon", 0, " ", false, true, false, ";", false},
	{"trailing blank + semicolon", 1, " ", false, true, false, " ;", false},
	{"zero-padded integer literals", 0, " ", false, true, false, "", true},
}

func renderTokens(toks []rtok, r rendering) string {
	var sb strings.Builder
	prevTight := true
	for _, t := range toks {
		if t.opt != 0 && !r.optOn {
			continue
		}
		text := t.text
		switch t.kind {
		case 'k':
			switch r.kw {
			case 1:
				text = strings.ToLower(text)
			case 2:
				b := []byte(strings.ToLower(text))
				for i := 0; i < len(b); i += 2 {
					if b[i] >= 'a' && b[i] <= 'z' {
						b[i] -= 32
					}
				}
				text = string(b)
			}
		case 'i':
			if r.delimID {
				text = "\"" + text + "\""
			}
		case 'n':
			if r.zeroPad && len(text) < 18 && text != "0" {
				text = "0" + text
			}
		}
		tightTok := t.kind == 'p' || t.kind == 'o'
		needSep := sb.Len() > 0
		if needSep && r.tight && (tightTok || prevTight) {
			needSep = false
		}
		if t.text == "." || (sb.Len() > 0 && strings.HasSuffix(sb.String(), ".")) {
			needSep = false // qualified names are always written without blanks
		}
		if needSep {
			sb.WriteString(r.sep)
		}
		sb.WriteString(text)
		prevTight = tightTok
	}
	return sb.String() + r.semi
}

// ---- tree builder with parallel token rendering ----

type gen struct{ toks []rtok }

func (g *gen) kw(s string)            { g.toks = append(g.toks, rtok{text: s, kind: 'k'}) }
func (g *gen) kwOpt(s string, o byte) { g.toks = append(g.toks, rtok{text: s, kind: 'k', opt: o}) }
func (g *gen) id(s string) {
	switch strings.ToUpper(s) {
	case "SELECT", "FROM", "WHERE", "ORDER", "GROUP":
		// an identifier spelled like a keyword only exists in delimited form
		g.toks = append(g.toks, rtok{text: "\"" + s + "\"", kind: 'q'})
		return
	}
	g.toks = append(g.toks, rtok{text: s, kind: 'i'})
}
func (g *gen) p(s string)  { g.toks = append(g.toks, rtok{text: s, kind: 'p'}) }
func (g *gen) op(s string) { g.toks = append(g.toks, rtok{text: s, kind: 'o'}) }

func (g *gen) lit(v any) {
	switch x := v.(type) {
	case string:
		g.toks = append(g.toks, rtok{text: "'" + x + "'", kind: 's'})
	case bool:
		if x {
			g.kw("TRUE")
		} else {
			g.kw("FALSE")
		}
	default:
		g.toks = append(g.toks, rtok{text: fmt.Sprint(x), kind: 'n'})
	}
}

func (g *gen) colref(c sql.ColumnReference) {
	if c.Qualifier != "" {
		g.id(c.Qualifier)
		g.p(".")
	}
	g.id(c.ColumnName)
}

func (g *gen) value(v any) {
	if c, ok := v.(sql.ColumnReference); ok {
		g.colref(c)
		return
	}
	g.lit(v)
}

var c10OpText = map[sql.TokenType]string{sql.EQ: "=", sql.NEQ: "!=", sql.LT: "<", sql.LTE: "<=", sql.GT: ">", sql.GTE: ">="}

type atom struct {
	l, r any
	op   sql.TokenType
}

// cond renders a flat condition atom (AND|OR atom)* and returns the tree the
// grammar assigns to it: OR of AND-terms, both right-nested.
func (g *gen) cond(atoms []atom, ors []bool) any {
	// ors[i] says whether the connective after atom i is OR (else AND)
	var groups [][]atom
	cur := []atom{atoms[0]}
	for i := 1; i < len(atoms); i++ {
		if ors[i-1] {
			groups = append(groups, cur)
			cur = nil
		}
		cur = append(cur, atoms[i])
	}
	groups = append(groups, cur)
	for i, a := range atoms {
		if i > 0 {
			if ors[i-1] {
				g.kw("OR")
			} else {
				g.kw("AND")
			}
		}
		g.value(a.l)
		g.op(c10OpText[a.op])
		g.value(a.r)
	}
	pred := func(a atom) sql.Predicate {
		return sql.Predicate{ComparisonPredicate: sql.ComparisonPredicate{LHS: a.l, CompOp: a.op, RHS: a.r}}
	}
	var andTerm func(as []atom) any
	andTerm = func(as []atom) any {
		if len(as) == 1 {
			return pred(as[0])
		}
		return sql.BooleanTerm{LHS: pred(as[0]), RHS: andTerm(as[1:])}
	}
	var orTerm func(gs [][]atom) any
	orTerm = func(gs [][]atom) any {
		if len(gs) == 1 {
			return andTerm(gs[0])
		}
		return sql.SearchCondition{LHS: andTerm(gs[0]), RHS: orTerm(gs[1:])}
	}
	return orTerm(groups)
}

// ---- normalisation ----

func normCond(v any) any {
	var ors func(v any) []any
	var ands func(v any) []any
	ands = func(v any) []any {
		if bt, ok := v.(sql.BooleanTerm); ok {
			return append(ands(bt.LHS), ands(bt.RHS)...)
		}
		return []any{v}
	}
	ors = func(v any) []any {
		if sc, ok := v.(sql.SearchCondition); ok {
			return append(ors(sc.LHS), ors(sc.RHS)...)
		}
		return []any{fmt.Sprintf("AND%#v", ands(v))}
	}
	switch v.(type) {
	case sql.SearchCondition, sql.BooleanTerm, sql.Predicate:
		return fmt.Sprintf("OR%v", ors(v))
	}
	return v
}

func normTableRef(v any) any {
	switch x := v.(type) {
	case sql.QualifiedJoin:
		x.LHS = normTableRef(x.LHS)
		x.RHS = normTableRef(x.RHS)
		x.JoinCondition = normCond(x.JoinCondition)
		return x
	case sql.TableName:
		if x.CorrelationName == nil {
			x.CorrelationName = ""
		}
		return x
	}
	return v
}

func normStmt(v any) any {
	switch x := v.(type) {
	case sql.Select:
		var sl sql.SelectList
		for _, d := range x.SelectList {
			d.ValueExpressionPrimary = normCond(d.ValueExpressionPrimary)
			sl = append(sl, d)
		}
		x.SelectList = sl
		var fc sql.FromClause
		for _, t := range x.FromClause {
			fc = append(fc, normTableRef(t))
		}
		x.FromClause = fc
		if wc, ok := x.WhereClause.(sql.WhereClause); ok {
			wc.SearchCondition = normCond(wc.SearchCondition)
			x.WhereClause = wc
		}
		var ss []sql.SortSpecification
		for _, s := range x.SortSpecificationList {
			s.OrderingSpecification = sql.Token{Type: s.OrderingSpecification.Type}
			ss = append(ss, s)
		}
		x.SortSpecificationList = ss
		if len(x.GroupByClause) == 0 {
			x.GroupByClause = nil
		}
		return x
	case sql.UpdateStatementSearched:
		if wc, ok := x.Where.(sql.WhereClause); ok {
			wc.SearchCondition = normCond(wc.SearchCondition)
			x.Where = wc
		}
		return x
	case sql.DeleteStatementSearched:
		if wc, ok := x.WhereClause.(sql.WhereClause); ok {
			wc.SearchCondition = normCond(wc.SearchCondition)
			x.WhereClause = wc
		}
		return x
	}
	return v
}

// ---- enumeration ----

type c10Case struct {
	tree any
	toks []rtok
	fam  string
	lead string // blanks in front of the statement (shifts every token relative to the scanner's buffer boundaries)
}

type c10Run struct {
	env   *lib.Env
	rep   *lib.Report
	n     int64
	known map[string]lib.KnownEntry
	fails map[string]int
}

func (r *c10Run) check(cs c10Case) {
	r.n++
	if int(r.n%int64(r.env.NShards)) != r.env.Shard {
		return
	}
	want := normStmt(cs.tree)
	var first string
	for ri, rd := range c10Renderings {
		text := cs.lead + renderTokens(cs.toks, rd)
		if ri > 0 && text == first {
			continue
		}
		if ri == 0 {
			first = text
		}
		got, err, pan := c09ParseText(text)
		outcome := "ok"
		var detail string
		switch {
		case pan != nil:
			outcome, detail = "panic", fmt.Sprintf("parser panics: %v", pan)
		case err != nil:
			outcome, detail = "rejected", fmt.Sprintf("parser rejects a statement of the supported grammar: %v", err)
		default:
			if g := normStmt(got); !reflect.DeepEqual(g, want) {
				outcome, detail = "mismatch", fmt.Sprintf("parsed statement differs from the statement that was written\n parsed: %#v\n wanted: %#v", g, want)
			}
		}
		r.rep.AddCase(true, lib.HashString(cs.fam+"|"+fmt.Sprintf("%#v", want)), lib.HashString(outcome))
		if outcome != "ok" {
			key := cs.fam + "/" + outcome
			r.fails[key]++
			f := &lib.Failure{Kind: "parse-" + outcome, Detail: fmt.Sprintf("[%s, rendering %q] %q: %s", cs.fam, rd.name, text, detail), Trace: []string{cs.fam, rd.name, text}}
			if r.fails[key] <= 3 {
				r.rep.AddFailure(f)
			} else {
				r.rep.FailCount++
			}
			return
		}
		if ri == 0 && r.rep.WantSample() {
			r.rep.AddSample(map[string]any{"family": cs.fam, "text": text, "tree": fmt.Sprintf("%#v", want)})
		}
	}
}

func cr(q, n string) sql.ColumnReference { return sql.ColumnReference{Qualifier: q, ColumnName: n} }

func runC10(env *lib.Env, rep *lib.Report) {
	lib.SilenceStderr()
	defer lib.RestoreStderr()
	r := &c10Run{env: env, rep: rep, known: env.OpenKnown(), fails: map[string]int{}}
	if env.Replay != "" {
		rf := lib.LoadReplay(env.Replay)
		lib.RestoreStderr()
		got, err, pan := c09ParseText(rf.Trace[2])
		lib.Say("replay: %q\n -> %#v err=%v panic=%v", rf.Trace[2], got, err, pan)
		lib.Say("recorded failure: %s", rf.Detail)
		if pan != nil || err != nil {
			rep.AddFailure(&lib.Failure{Kind: rf.Kind, Detail: fmt.Sprint(err, pan), Trace: rf.Trace})
		}
		return
	}
	maxAtoms := 3
	if env.Thorough() {
		maxAtoms = 4
		// the full product of the rendering dimensions instead of one variation at a time
		c10Renderings = nil
		for kw := 0; kw < 3; kw++ {
			for _, sep := range []string{" ", "\n", " \t  ", "\r\n"} {
				for _, tight := range []bool{false, true} {
					for _, opt := range []bool{true, false} {
						for _, delim := range []bool{false, true} {
							for _, semi := range []string{"", ";", " ;"} {
								c10Renderings = append(c10Renderings, rendering{fmt.Sprintf("kw%d sep%q tight=%v optional=%v delimited=%v semi=%q", kw, sep, tight, opt, delim, semi), kw, sep, tight, opt, delim, semi, false})
							}
						}
					}
				}
			}
		}
	}
	vals := []any{cr("", "a"), cr("t", "b"), int64(1), "x"}
	valsWide := []any{cr("", "a"), cr("t", "b"), cr("", "select"), int64(0), int64(42), int64(9223372036854775807), "", "x y", "it;s", "SELECT", "\"q\"", "it\\'s", "\\'", "x\\'y\\'z\\'", "back\\\\", "50\\% off", "C:\\dir\\q", "\\8", true, false}
	ops := []sql.TokenType{sql.EQ, sql.NEQ, sql.LT, sql.LTE, sql.GT, sql.GTE}

	selectStar := func(g *gen) sql.SelectList {
		g.kw("SELECT")
		g.p("*")
		return sql.SelectList{{ValueExpressionPrimary: sql.Asterisk{}}}
	}
	from := func(g *gen, name, alias string) sql.FromClause {
		g.kw("FROM")
		g.id(name)
		tn := sql.TableName{Name: name}
		if alias != "" {
			g.id(alias)
			tn.CorrelationName = alias
		}
		return sql.FromClause{tn}
	}

	// (1) WHERE conditions: every operator pattern x a rotating atom set, exhaustively for <= maxAtoms atoms
	var atomsAll []atom
	for _, l := range vals {
		for _, rv := range vals {
			for _, o := range ops {
				atomsAll = append(atomsAll, atom{l, rv, o})
			}
		}
	}
	for n := 1; n <= maxAtoms; n++ {
		for pat := 0; pat < 1<<uint(n-1); pat++ {
			ors := make([]bool, n-1)
			for i := range ors {
				ors[i] = pat>>uint(i)&1 == 1
			}
			// first atom ranges over all atoms; the others rotate through the atom list
			for ai := range atomsAll {
				as := make([]atom, n)
				for i := range as {
					as[i] = atomsAll[(ai+i*37)%len(atomsAll)]
				}
				g := &gen{}
				sel := sql.Select{SelectList: selectStar(g)}
				sel.FromClause = from(g, "t", "")
				g.kw("WHERE")
				sel.WhereClause = sql.WhereClause{SearchCondition: g.cond(as, ors)}
				r.check(c10Case{tree: sel, toks: g.toks, fam: fmt.Sprintf("where/%d-atoms", n)})
			}
		}
	}
	// every atom over the wide literal set once
	for _, l := range valsWide {
		for _, rv := range valsWide {
			for _, o := range ops {
				g := &gen{}
				sel := sql.Select{SelectList: selectStar(g)}
				sel.FromClause = from(g, "t", "")
				g.kw("WHERE")
				sel.WhereClause = sql.WhereClause{SearchCondition: g.cond([]atom{{l, rv, o}}, nil)}
				r.check(c10Case{tree: sel, toks: g.toks, fam: "where/wide-literals"})
			}
		}
	}

	// (2) select lists: every ordered list of <= 3 items
	type item struct {
		name string
		emit func(g *gen) sql.DerivedColumn
	}
	colItem := func(c sql.ColumnReference, alias string, as bool) item {
		return item{fmt.Sprint(c, alias, as), func(g *gen) sql.DerivedColumn {
			g.colref(c)
			if alias != "" {
				if as {
					g.kw("AS")
				}
				g.id(alias)
			}
			return sql.DerivedColumn{ValueExpressionPrimary: c, AsClause: alias}
		}}
	}
	items := []item{
		colItem(cr("", "a"), "", false), colItem(cr("t", "b"), "", false), colItem(cr("", "a"), "x", false), colItem(cr("", "c"), "y", true),
		{"lit-int", func(g *gen) sql.DerivedColumn {
			g.lit(int64(7))
			return sql.DerivedColumn{ValueExpressionPrimary: int64(7)}
		}},
		{"lit-str", func(g *gen) sql.DerivedColumn { g.lit("s"); return sql.DerivedColumn{ValueExpressionPrimary: "s"} }},
		{"cmp", func(g *gen) sql.DerivedColumn {
			return sql.DerivedColumn{ValueExpressionPrimary: g.cond([]atom{{cr("", "a"), int64(1), sql.EQ}}, nil)}
		}},
		{"cmp-alias", func(g *gen) sql.DerivedColumn {
			d := sql.DerivedColumn{ValueExpressionPrimary: g.cond([]atom{{cr("", "a"), cr("", "c"), sql.LT}}, nil), AsClause: "z"}
			g.kwOpt("AS", 'A')
			g.id("z")
			return d
		}},
		{"and-or", func(g *gen) sql.DerivedColumn {
			return sql.DerivedColumn{ValueExpressionPrimary: g.cond([]atom{{int64(1), int64(1), sql.EQ}, {cr("", "a"), int64(2), sql.GT}, {"p", "q", sql.NEQ}}, []bool{false, true})}
		}},
	}
	var lists [][]int
	for a := range items {
		lists = append(lists, []int{a})
		for b := range items {
			lists = append(lists, []int{a, b})
			for c := range items {
				lists = append(lists, []int{a, b, c})
			}
		}
	}
	for _, l := range lists {
		for _, withFrom := range []bool{true, false} {
			g := &gen{}
			g.kw("SELECT")
			var sl sql.SelectList
			for i, ii := range l {
				if i > 0 {
					g.p(",")
				}
				sl = append(sl, items[ii].emit(g))
			}
			sel := sql.Select{SelectList: sl}
			if withFrom {
				sel.FromClause = from(g, "t", "")
			} else {
				sel.FromClause = sql.FromClause{}
			}
			r.check(c10Case{tree: sel, toks: g.toks, fam: "select-list"})
		}
	}

	// (3) FROM / joins: 0..2 joins x join kinds x aliases x ON conditions
	type jk struct {
		jt    sql.JoinType
		words []rtok
	}
	joinKinds := []jk{
		{sql.INNER_JOIN, []rtok{{text: "INNER", kind: 'k', opt: 'I'}, {text: "JOIN", kind: 'k'}}},
		{sql.LEFT_JOIN, []rtok{{text: "LEFT", kind: 'k'}, {text: "JOIN", kind: 'k'}}},
		{sql.RIGHT_JOIN, []rtok{{text: "RIGHT", kind: 'k'}, {text: "JOIN", kind: 'k'}}},
	}
	onConds := []struct {
		as  []atom
		ors []bool
	}{
		{[]atom{{cr("t", "a"), cr("u", "a"), sql.EQ}}, nil},
		{[]atom{{cr("t", "a"), cr("u", "a"), sql.NEQ}, {cr("u", "b"), int64(3), sql.LT}}, []bool{false}},
		{[]atom{{cr("t", "a"), cr("u", "a"), sql.EQ}, {cr("t", "b"), cr("u", "b"), sql.GTE}}, []bool{true}},
		{[]atom{{int64(1), int64(1), sql.EQ}}, nil},
	}
	aliases := []string{"", "x"}
	for nj := 0; nj <= 2; nj++ {
		var rec func(j int, g *gen, ref any)
		finish := func(g *gen, ref any) {
			sel := sql.Select{SelectList: sql.SelectList{{ValueExpressionPrimary: sql.Asterisk{}}}}
			sel.FromClause = sql.FromClause{ref}
			toks := append([]rtok{{text: "SELECT", kind: 'k'}, {text: "*", kind: 'p'}, {text: "FROM", kind: 'k'}}, g.toks...)
			r.check(c10Case{tree: sel, toks: toks, fam: fmt.Sprintf("from/%d-joins", nj)})
			// with a WHERE behind the joins
			g2 := &gen{toks: append([]rtok{}, toks...)}
			g2.kw("WHERE")
			sel.WhereClause = sql.WhereClause{SearchCondition: g2.cond([]atom{{cr("t", "a"), int64(5), sql.LTE}}, nil)}
			r.check(c10Case{tree: sel, toks: g2.toks, fam: fmt.Sprintf("from/%d-joins+where", nj)})
		}
		rec = func(j int, g *gen, ref any) {
			if j == nj {
				finish(g, ref)
				return
			}
			for _, k := range joinKinds {
				for _, al := range aliases {
					for _, oc := range onConds {
						g2 := &gen{toks: append([]rtok{}, g.toks...)}
						g2.toks = append(g2.toks, k.words...)
						name := []string{"u", "v"}[j]
						g2.id(name)
						tn := sql.TableName{Name: name}
						if al != "" {
							g2.id(al + name)
							tn.CorrelationName = al + name
						}
						g2.kw("ON")
						qj := sql.QualifiedJoin{LHS: ref, JoinType: k.jt, RHS: tn, JoinCondition: g2.cond(oc.as, oc.ors)}
						rec(j+1, g2, qj)
					}
				}
			}
		}
		for _, al := range aliases {
			g := &gen{}
			g.id("t")
			tn := sql.TableName{Name: "t"}
			if al != "" {
				g.id(al)
				tn.CorrelationName = al
			}
			rec(0, g, tn)
		}
	}

	// (4) GROUP BY / aggregates
	aggItems := []item{
		colItem(cr("", "g"), "", false), colItem(cr("", "h"), "", false), colItem(cr("t", "g"), "", false), colItem(cr("", "g"), "gg", true),
		{"count*", func(g *gen) sql.DerivedColumn {
			g.kw("COUNT")
			g.p("(")
			g.p("*")
			g.p(")")
			return sql.DerivedColumn{ValueExpressionPrimary: sql.Count{}}
		}},
		{"count-col", func(g *gen) sql.DerivedColumn {
			g.kw("COUNT")
			g.p("(")
			g.colref(cr("", "v"))
			g.p(")")
			return sql.DerivedColumn{ValueExpressionPrimary: sql.Count{ValueExpression: cr("", "v")}}
		}},
		{"avg", func(g *gen) sql.DerivedColumn {
			g.kw("AVG")
			g.p("(")
			g.colref(cr("t", "v"))
			g.p(")")
			g.kwOpt("AS", 'A')
			g.id("m")
			return sql.DerivedColumn{ValueExpressionPrimary: sql.Average{ValueExpression: cr("t", "v")}, AsClause: "m"}
		}},
		// (each function also with the other spelling of its argument: qualified for COUNT, unqualified for AVG)
		{"count-qualified", func(g *gen) sql.DerivedColumn {
			g.kw("COUNT")
			g.p("(")
			g.colref(cr("t", "v"))
			g.p(")")
			g.id("n")
			return sql.DerivedColumn{ValueExpressionPrimary: sql.Count{ValueExpression: cr("t", "v")}, AsClause: "n"}
		}},
		{"avg-unqualified", func(g *gen) sql.DerivedColumn {
			g.kw("AVG")
			g.p("(")
			g.colref(cr("", "w"))
			g.p(")")
			return sql.DerivedColumn{ValueExpressionPrimary: sql.Average{ValueExpression: cr("", "w")}}
		}},
	}
	groupKeys := map[int][]sql.ColumnReference{0: {cr("", "g")}, 1: {cr("", "h")}, 2: {cr("t", "g"), cr("", "g")}, 3: {cr("", "gg"), cr("", "g")}}
	for a := range aggItems {
		for b := range aggItems {
			for c := -1; c < len(aggItems); c++ {
				l := []int{a, b}
				if c >= 0 {
					l = append(l, c)
				}
				hasAgg := false
				groupSpell := [][]sql.ColumnReference{}
				gcount := map[string]bool{}
				dup := false
				for _, ii := range l {
					if ii >= 4 {
						hasAgg = true
						continue
					}
					base := []string{"g", "h", "g", "g"}[ii]
					if gcount[base] {
						dup = true
					}
					gcount[base] = true
					groupSpell = append(groupSpell, groupKeys[ii])
				}
				if !hasAgg || dup {
					continue
				}
				// every spelling choice for the grouping columns
				nsp := 1
				for _, s := range groupSpell {
					nsp *= len(s)
				}
				for sp := 0; sp < nsp; sp++ {
					g := &gen{}
					g.kw("SELECT")
					var sl sql.SelectList
					for i, ii := range l {
						if i > 0 {
							g.p(",")
						}
						sl = append(sl, aggItems[ii].emit(g))
					}
					sel := sql.Select{SelectList: sl}
					sel.FromClause = from(g, "t", "")
					x := sp
					var gb []sql.ColumnReference
					for _, s := range groupSpell {
						gb = append(gb, s[x%len(s)])
						x /= len(s)
					}
					if len(gb) > 0 {
						g.kw("GROUP")
						g.kw("BY")
						for i, c := range gb {
							if i > 0 {
								g.p(",")
							}
							g.colref(c)
						}
					}
					sel.GroupByClause = gb
					r.check(c10Case{tree: sel, toks: g.toks, fam: fmt.Sprintf("group-by/%d-columns", len(gb))})
				}
			}
		}
	}

	// (5) ORDER BY x LIMIT/OFFSET
	sortKeys := []sql.ColumnReference{cr("", "a"), cr("t", "b"), cr("", "x")}
	dirs := []struct {
		tt  sql.TokenType
		tok *rtok
	}{{sql.ASC, nil}, {sql.ASC, &rtok{text: "ASC", kind: 'k'}}, {sql.DESC, &rtok{text: "DESC", kind: 'k'}}, {sql.ASC, &rtok{text: "ASC", kind: 'k', opt: 'C'}}}
	type lo struct {
		words []any // "LIMIT", n, "OFFSET", m in written order
		c     sql.LimitOffsetClause
	}
	var los []lo
	los = append(los, lo{nil, sql.LimitOffsetClause{}})
	for _, n := range []int{0, 1, 25} {
		los = append(los, lo{[]any{"LIMIT", n}, sql.LimitOffsetClause{LimitActive: true, Limit: n}})
		los = append(los, lo{[]any{"OFFSET", n}, sql.LimitOffsetClause{OffsetActive: true, Offset: n}})
		for _, m := range []int{0, 3} {
			los = append(los, lo{[]any{"LIMIT", n, "OFFSET", m}, sql.LimitOffsetClause{LimitActive: true, Limit: n, OffsetActive: true, Offset: m}})
			los = append(los, lo{[]any{"OFFSET", m, "LIMIT", n}, sql.LimitOffsetClause{LimitActive: true, Limit: n, OffsetActive: true, Offset: m}})
		}
	}
	for nk := 0; nk <= 2; nk++ {
		var keysets [][][2]int
		if nk == 0 {
			keysets = [][][2]int{nil}
		}
		if nk >= 1 {
			for k1 := range sortKeys {
				for d1 := range dirs {
					if nk == 1 {
						keysets = append(keysets, [][2]int{{k1, d1}})
						continue
					}
					for k2 := range sortKeys {
						for d2 := range dirs {
							keysets = append(keysets, [][2]int{{k1, d1}, {k2, d2}})
						}
					}
				}
			}
		}
		for _, ks := range keysets {
			for _, l := range los {
				for _, withWhere := range []bool{false, true} {
					g := &gen{}
					sel := sql.Select{SelectList: selectStar(g)}
					sel.FromClause = from(g, "t", "")
					if withWhere {
						g.kw("WHERE")
						sel.WhereClause = sql.WhereClause{SearchCondition: g.cond([]atom{{cr("", "a"), int64(1), sql.GT}}, nil)}
					}
					if len(ks) > 0 {
						g.kw("ORDER")
						g.kw("BY")
						for i, kd := range ks {
							if i > 0 {
								g.p(",")
							}
							g.colref(sortKeys[kd[0]])
							if dirs[kd[1]].tok != nil {
								g.toks = append(g.toks, *dirs[kd[1]].tok)
							}
							sel.SortSpecificationList = append(sel.SortSpecificationList, sql.SortSpecification{SortKey: sortKeys[kd[0]], OrderingSpecification: sql.Token{Type: dirs[kd[1]].tt}})
						}
					}
					for _, wd := range l.words {
						if s, ok := wd.(string); ok {
							g.kw(s)
						} else {
							g.lit(int64(wd.(int)))
						}
					}
					sel.LimitOffsetClause = l.c
					r.check(c10Case{tree: sel, toks: g.toks, fam: fmt.Sprintf("order-by/%d-keys+limit", len(ks))})
				}
			}
		}
	}

	// (6) INSERT: with / without column list, 1..3 rows x 1..3 values over every literal kind
	litKinds := []any{int64(0), int64(77), int64(9223372036854775807), "", "txt", "a,b)", "se;mi", true, false}
	for _, withCols := range []bool{false, true} {
		for nrows := 1; nrows <= 3; nrows++ {
			for nvals := 1; nvals <= 3; nvals++ {
				for start := range litKinds {
					g := &gen{}
					g.kw("INSERT")
					g.kw("INTO")
					g.id("t")
					ins := sql.InsertStatement{TableName: "t"}
					if withCols {
						g.p("(")
						for i := 0; i < nvals; i++ {
							if i > 0 {
								g.p(",")
							}
							g.id(fmt.Sprintf("c%d", i))
							ins.ColumnNames = append(ins.ColumnNames, fmt.Sprintf("c%d", i))
						}
						g.p(")")
					}
					g.kw("VALUES")
					var tvc sql.TableValueConstructor
					for rw := 0; rw < nrows; rw++ {
						if rw > 0 {
							g.p(",")
						}
						g.p("(")
						var rvc sql.RowValueConstructor
						for i := 0; i < nvals; i++ {
							if i > 0 {
								g.p(",")
							}
							v := litKinds[(start+rw*3+i)%len(litKinds)]
							g.lit(v)
							rvc.RowValueConstructorList = append(rvc.RowValueConstructorList, v)
						}
						g.p(")")
						tvc.TableValueConstructorList = append(tvc.TableValueConstructorList, rvc)
					}
					ins.QueryExpression = tvc
					r.check(c10Case{tree: ins, toks: g.toks, fam: "insert"})
				}
			}
		}
	}

	// (7) UPDATE 1..3 assignments x optional WHERE; DELETE x optional WHERE
	setVals := []any{int64(5), "v", true, cr("", "other"), ""}
	whereVariants := []struct {
		as  []atom
		ors []bool
	}{{nil, nil}, {[]atom{{cr("", "a"), int64(1), sql.EQ}}, nil}, {[]atom{{cr("", "a"), int64(1), sql.EQ}, {cr("", "b"), "x", sql.NEQ}, {cr("", "c"), true, sql.EQ}}, []bool{true, false}}}
	for nset := 1; nset <= 3; nset++ {
		for start := range setVals {
			for _, wv := range whereVariants {
				g := &gen{}
				g.kw("UPDATE")
				g.id("t")
				g.kw("SET")
				up := sql.UpdateStatementSearched{TableName: "t"}
				for i := 0; i < nset; i++ {
					if i > 0 {
						g.p(",")
					}
					col := fmt.Sprintf("c%d", i)
					v := setVals[(start+i)%len(setVals)]
					g.id(col)
					g.op("=")
					g.value(v)
					up.Set = append(up.Set, sql.SetClause{ObjectColumn: col, UpdateSource: v})
				}
				if wv.as != nil {
					g.kw("WHERE")
					up.Where = sql.WhereClause{SearchCondition: g.cond(wv.as, wv.ors)}
				}
				r.check(c10Case{tree: up, toks: g.toks, fam: "update"})
			}
		}
	}
	for _, wv := range whereVariants {
		g := &gen{}
		g.kw("DELETE")
		g.kw("FROM")
		g.id("t")
		del := sql.DeleteStatementSearched{TableName: "t"}
		if wv.as != nil {
			g.kw("WHERE")
			del.WhereClause = sql.WhereClause{SearchCondition: g.cond(wv.as, wv.ors)}
		}
		r.check(c10Case{tree: del, toks: g.toks, fam: "delete"})
	}

	// (8) CREATE TABLE with 1..4 columns of every type in every order; CREATE DATABASE; USE; SHOW
	// counts beyond 32 bits (the statement keeps them in an int)
	for _, n := range []int{2147483648, 3000000000, int(^uint(0) >> 1)} {
		los = append(los, lo{[]any{"LIMIT", n}, sql.LimitOffsetClause{LimitActive: true, Limit: n}})
		los = append(los, lo{[]any{"OFFSET", n}, sql.LimitOffsetClause{OffsetActive: true, Offset: n}})
		los = append(los, lo{[]any{"LIMIT", n, "OFFSET", n}, sql.LimitOffsetClause{LimitActive: true, Limit: n, OffsetActive: true, Offset: n}})
	}
	type ct struct {
		words []rtok
		dt    any
	}
	ctypes := []ct{
		{[]rtok{{text: "INT", kind: 'k'}}, sql.NumericType{}},
		{[]rtok{{text: "BIGINT", kind: 'k'}}, sql.BigIntType{}},
		{[]rtok{{text: "VARCHAR", kind: 'k'}, {text: "(", kind: 'p'}, {text: "255", kind: 'n'}, {text: ")", kind: 'p'}}, sql.CharacterStringType{Len: 255, Type: sql.T_VARCHAR}},
		{[]rtok{{text: "BOOLEAN", kind: 'k'}}, sql.BooleanType{}},
		{[]rtok{{text: "VARCHAR", kind: 'k'}, {text: "(", kind: 'p'}, {text: "1", kind: 'n'}, {text: ")", kind: 'p'}}, sql.CharacterStringType{Len: 1, Type: sql.T_VARCHAR}},
		{[]rtok{{text: "VARCHAR", kind: 'k'}, {text: "(", kind: 'p'}, {text: "3000000000", kind: 'n'}, {text: ")", kind: 'p'}}, sql.CharacterStringType{Len: 3000000000, Type: sql.T_VARCHAR}},
	}
	var rect func(cols []int)
	rect = func(cols []int) {
		if len(cols) > 0 {
			g := &gen{}
			g.kw("CREATE")
			g.kw("TABLE")
			g.id("tbl")
			g.p("(")
			c := sql.CreateTable{Name: "tbl"}
			for i, ci := range cols {
				if i > 0 {
					g.p(",")
				}
				name := fmt.Sprintf("c%d", i)
				g.id(name)
				g.toks = append(g.toks, ctypes[ci].words...)
				c.Elements = append(c.Elements, sql.TableElement{ColumnDefinition: sql.ColumnDefinition{DataType: ctypes[ci].dt, Name: name}})
			}
			g.p(")")
			r.check(c10Case{tree: c, toks: g.toks, fam: "create-table"})
		}
		if len(cols) == 4 {
			return
		}
		for i := range ctypes {
			rect(append(append([]int{}, cols...), i))
		}
	}
	rect(nil)
	for _, name := range []string{"d", "mydb", "select"} {
		g := &gen{}
		g.kw("CREATE")
		g.kw("DATABASE")
		g.id(name)
		if name != "select" {
			r.check(c10Case{tree: sql.CreateDatabase{Name: name}, toks: g.toks, fam: "create-database"})
		}
		g = &gen{}
		g.kw("USE")
		g.id(name)
		if name != "select" {
			r.check(c10Case{tree: sql.UseStatement{DBName: name}, toks: g.toks, fam: "use"})
		}
	}
	// (9) identifier shapes: underscores first / last / only, digits inside and last, a long one - as table, column
	// and database name
	// ... and names with capital letters (a name is kept as it was written)
	for _, name := range []string{"_id", "_", "__x9", "a_", "a1_b2", "x9", "r2d2_", "_" + strings.Repeat("n", 70), "SalesDB", "X", "aB_c", "ID", "Zz9",
		// ... and names with letters beyond ASCII
		"prénom", "élèves", "таблица", "名前", "ñ"} {
		// UPDATE name SET name = 1, INSERT INTO name (name, name) VALUES .., SELECT name.name AS name FROM name name
		{
			g := &gen{}
			g.kw("UPDATE")
			g.id(name)
			g.kw("SET")
			g.id(name)
			g.op("=")
			g.value(int64(1))
			g.p(",")
			g.id(name + "2")
			g.op("=")
			g.value(cr("", name))
			r.check(c10Case{tree: sql.UpdateStatementSearched{TableName: name, Set: []sql.SetClause{{ObjectColumn: name, UpdateSource: int64(1)}, {ObjectColumn: name + "2", UpdateSource: cr("", name)}}}, toks: g.toks, fam: "identifier-shapes"})
			g = &gen{}
			g.kw("INSERT")
			g.kw("INTO")
			g.id(name)
			g.p("(")
			g.id(name)
			g.p(",")
			g.id(name + "2")
			g.p(")")
			g.kw("VALUES")
			g.p("(")
			g.lit(int64(1))
			g.p(",")
			g.lit(name)
			g.p(")")
			ins := sql.InsertStatement{TableName: name}
			ins.ColumnNames = []string{name, name + "2"}
			ins.QueryExpression = sql.TableValueConstructor{TableValueConstructorList: []sql.RowValueConstructor{{RowValueConstructorList: []any{int64(1), name}}}}
			r.check(c10Case{tree: ins, toks: g.toks, fam: "identifier-shapes"})
			g = &gen{}
			g.kw("SELECT")
			g.colref(cr(name+"q", name))
			g.kwOpt("AS", 'A')
			g.id(name + "a")
			sel := sql.Select{SelectList: sql.SelectList{sql.DerivedColumn{ValueExpressionPrimary: cr(name+"q", name), AsClause: name + "a"}}}
			sel.FromClause = from(g, name, name+"q")
			r.check(c10Case{tree: sel, toks: g.toks, fam: "identifier-shapes"})
		}
		g := &gen{}
		g.kw("DELETE")
		g.kw("FROM")
		g.id(name)
		g.kw("WHERE")
		del := sql.DeleteStatementSearched{TableName: name}
		del.WhereClause = sql.WhereClause{SearchCondition: g.cond([]atom{{cr("", name), int64(1), ops[0]}, {cr(name, name), int64(2), ops[2]}}, []bool{true})}
		r.check(c10Case{tree: del, toks: g.toks, fam: "identifier-shapes"})
		g = &gen{}
		g.kw("CREATE")
		g.kw("TABLE")
		g.id(name)
		g.p("(")
		g.id(name)
		g.toks = append(g.toks, ctypes[0].words...)
		g.p(")")
		r.check(c10Case{tree: sql.CreateTable{Name: name, Elements: []sql.TableElement{{ColumnDefinition: sql.ColumnDefinition{DataType: ctypes[0].dt, Name: name}}}}, toks: g.toks, fam: "identifier-shapes"})
		g = &gen{}
		g.kw("CREATE")
		g.kw("DATABASE")
		g.id(name)
		r.check(c10Case{tree: sql.CreateDatabase{Name: name}, toks: g.toks, fam: "identifier-shapes"})
		g = &gen{}
		g.kw("USE")
		g.id(name)
		r.check(c10Case{tree: sql.UseStatement{DBName: name}, toks: g.toks, fam: "identifier-shapes"})
	}
	g := &gen{}
	g.kw("SHOW")
	g.kw("DATABASE")
	r.check(c10Case{tree: sql.ShowDatabase{}, toks: g.toks, fam: "show"})
	g = &gen{}
	g.kw("SHOW")
	g.toks = append(g.toks, rtok{text: "DATABASES", kind: 'k'})
	r.check(c10Case{tree: sql.ShowDatabase{}, toks: g.toks, fam: "show"})

	// (9) statements longer than the scanner's 1024-byte read buffer, shifted blank by blank so that
	// every token of the region around each refill boundary straddles it in some shift
	{
		g := &gen{}
		g.kw("INSERT")
		g.kw("INTO")
		g.id("t")
		g.p("(")
		g.id("c0")
		g.p(",")
		g.id("c1")
		g.p(",")
		g.id("c2")
		g.p(")")
		g.kw("VALUES")
		ins := sql.InsertStatement{TableName: "t"}
		ins.ColumnNames = []string{"c0", "c1", "c2"}
		var tvc sql.TableValueConstructor
		for rw := 0; rw < 70; rw++ {
			if rw > 0 {
				g.p(",")
			}
			// (2-, 3- and 4-byte characters in the literals: every phase of every character meets a refill boundary
			// at some shift)
			vals := []any{int64(1000 + rw), fmt.Sprintf("é日🙂é日🙂_%02d", rw), rw%2 == 0}
			g.p("(")
			for i, v := range vals {
				if i > 0 {
					g.p(",")
				}
				g.lit(v)
			}
			g.p(")")
			tvc.TableValueConstructorList = append(tvc.TableValueConstructorList, sql.RowValueConstructor{RowValueConstructorList: vals})
		}
		ins.QueryExpression = tvc
		g2 := &gen{}
		sel := sql.Select{SelectList: selectStar(g2)}
		sel.FromClause = from(g2, "t", "")
		g2.kw("WHERE")
		var as []atom
		var ors []bool
		for i := 0; i < 75; i++ {
			as = append(as, atom{cr("", fmt.Sprintf("region_code%d", i%7)), int64(i), ops[i%6]})
			if i > 0 {
				ors = append(ors, i%9 == 0)
			}
		}
		sel.WhereClause = sql.WhereClause{SearchCondition: g2.cond(as, ors)}
		g2.kw("ORDER")
		g2.kw("BY")
		g2.colref(cr("", "a"))
		g2.kw("DESC")
		g2.p(",")
		g2.colref(cr("t", "b"))
		sel.SortSpecificationList = []sql.SortSpecification{{SortKey: cr("", "a"), OrderingSpecification: sql.Token{Type: sql.DESC}}, {SortKey: cr("t", "b"), OrderingSpecification: sql.Token{Type: sql.ASC}}}
		g2.kw("LIMIT")
		g2.lit(int64(3))
		g2.kw("OFFSET")
		g2.lit(int64(1))
		sel.LimitOffsetClause = sql.LimitOffsetClause{LimitActive: true, Limit: 3, OffsetActive: true, Offset: 1}
		for shift := 0; shift <= 48; shift++ {
			lead := strings.Repeat(" ", shift)
			r.check(c10Case{tree: ins, toks: g.toks, fam: "long/insert", lead: lead})
			r.check(c10Case{tree: sel, toks: g2.toks, fam: "long/select", lead: lead})
		}
	}

	rep.Bounds["statement trees (all shards)"] = r.n
	rep.Bounds["renderings per tree"] = len(c10Renderings)
	rep.Bounds["condition atoms"] = maxAtoms
	rep.Bounds["grammar limits (not generated)"] = "AS before a table alias, negative numbers, NULL literal, parentheses in conditions, keyword-named identifiers outside the delimited-identifier rendering"
}
