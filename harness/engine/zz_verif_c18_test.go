package engine

import (
	"fmt"
	"os"
	"strings"

	"github.com/mk6i/mkdb/storage"
	"verif/lib"
)

// C18 — no statement can crash the engine. Grammar-derived statements, valid
// and type-confused, over a schema with all four column types, NULL-bearing
// rows, duplicate rows, an empty table and a table with a duplicated column
// name, in every session state (no USE, failed USE, database selected), are
// executed through Session.ExecQuery under recover() with a page-fetch fuel
// limit as hang detector. Oracle: returns nil or an error value.

func init() { verifChecks["C18"] = runC18 }

type c18World struct {
	dir  string
	sess *Session
}

func c18Setup(state string) (*c18World, error) {
	if worldHome == "" {
		worldHome, _ = os.Getwd()
	}
	storage.VerifInstall(true, 0, 0, 0)
	w := &c18World{dir: worldScratch()}
	os.Chdir(w.dir)
	if err := guard(storage.InitStorage); err != nil {
		return w, err
	}
	w.sess = &Session{}
	run := func(q string) error {
		if err := guard(func() error { return w.sess.ExecQuery(q) }); err != nil {
			return fmt.Errorf("%s: %w", q, err)
		}
		return nil
	}
	setup := []string{
		"CREATE DATABASE d", "USE d",
		"CREATE TABLE t (a int, b bigint, c varchar(255), d boolean)",
		"INSERT INTO t VALUES (1, 10, 'x', true)",
		"INSERT INTO t (c) VALUES ('only c')",
		"INSERT INTO t (a, c, d) VALUES (2, 'y', false)",
		"INSERT INTO t VALUES (1, 10, 'x', true)",
		"INSERT INTO t (b) VALUES (9223372036854775807)",
		"CREATE TABLE u (a int, e varchar(255))",
		"INSERT INTO u VALUES (1, 'p')",
		"INSERT INTO u (e) VALUES ('q')",
		"CREATE TABLE e (a int)",
		"CREATE TABLE dd (a int, a varchar(255))",
		"INSERT INTO dd VALUES (1, 'one')",
		"CREATE TABLE s8 (a int, c varchar(255))", // one leaf, one row short of its first split
		"INSERT INTO s8 VALUES (1, 'r1'), (2, 'r2'), (3, 'r3'), (4, 'r4'), (5, 'r5'), (6, 'r6'), (7, 'r7'), (8, 'r8')",
		"CREATE TABLE inventory_of_everything (description_of_the_item varchar(255), item_identifier_number int)", // long names
		"INSERT INTO inventory_of_everything VALUES ('a thing', 1), ('another', 2)",
		"CREATE TABLE z ()", // a table without columns, with two rows (if the engine lets it be)
		"INSERT INTO z VALUES (), ()",
	}
	for _, q := range setup {
		if err := run(q); err != nil {
			if strings.Contains(q, " dd ") || strings.Contains(q, " z ") {
				continue // the duplicate-column table and the column-less table are themselves inputs under test
			}
			return w, err
		}
	}
	switch state {
	case "no-use":
		w.close()
		w.sess = &Session{}
	case "failed-use":
		w.close()
		w.sess = &Session{}
		guard(func() error { return w.sess.ExecQuery("USE nosuchdb") })
	case "failed-use-after-use":
		guard(func() error { return w.sess.ExecQuery("USE nosuchdb") })
	case "selected-after-restart":
		// clean shutdown, start-up recovery, a new session: every page the statements see comes from the data file
		w.close()
		storage.VerifForgetStores()
		if err := guard(storage.InitStorage); err != nil {
			return w, err
		}
		storage.VerifForgetStores()
		w.sess = &Session{}
		if err := run("USE d"); err != nil {
			return w, err
		}
	}
	return w, nil
}

func (w *c18World) close() {
	if w.sess != nil && w.sess.RelationService != nil {
		rs := w.sess.RelationService
		guard(func() error { return w.sess.Close() })
		storage.VerifMarkClosed(rs)
	}
}

func (w *c18World) destroy() {
	func() {
		defer func() { recover() }()
		if w.sess != nil && w.sess.RelationService != nil {
			storage.VerifAbandon(w.sess.RelationService)
		}
		for _, s := range storage.VerifStores() {
			if s.Flusher && !s.Dead {
				s.AbandonStore()
			}
		}
	}()
	storage.VerifForgetStores()
	os.Chdir(worldHome)
	os.RemoveAll(w.dir)
}

// c18Selects: read-only statements.
func c18Selects(thorough bool) []string {
	var out []string
	cols := []string{"a", "b", "c", "d", "t.a", "t.c", "u.a", "e", "nosuch", "t.nosuch", "x.a"}
	lits := []string{"1", "0", "2147483648", "9223372036854775807", "'x'", "''", "true", "false"}
	ops := []string{"=", "!=", "<", "<=", ">", ">="}
	froms := []string{"t", "u", "e", "dd", "nosuch", "t JOIN u ON t.a = u.a", "t LEFT JOIN u ON t.a = u.a", "t RIGHT JOIN u ON t.c = u.e", "t JOIN u ON t.a = u.e", "t JOIN u ON a = 1", "t x JOIN t y ON x.a = y.a",
		"t JOIN u ON t.c", "t JOIN u ON 1", "t LEFT JOIN e ON t.d = e.a"}
	// every operand pair x operator in WHERE, on the NULL-bearing table and on a join
	operands := append(append([]string{}, cols...), lits...)
	for _, l := range operands {
		for _, r := range operands {
			for _, o := range ops {
				out = append(out, fmt.Sprintf("SELECT * FROM t WHERE %s %s %s", l, o, r))
				if thorough {
					out = append(out, fmt.Sprintf("SELECT * FROM t JOIN u ON t.a = u.a WHERE %s %s %s", l, o, r))
					out = append(out, fmt.Sprintf("SELECT %s %s %s FROM t", l, o, r))
				}
			}
		}
	}
	// a bare operand of every kind where a condition is expected: WHERE, ON, and the select list
	for _, o := range operands {
		for _, f := range froms {
			out = append(out, fmt.Sprintf("SELECT * FROM %s WHERE %s", f, o))
		}
		for _, k := range []string{"JOIN", "LEFT JOIN", "RIGHT JOIN"} {
			out = append(out, fmt.Sprintf("SELECT * FROM t %s u ON %s", k, o), fmt.Sprintf("SELECT * FROM t %s e ON %s", k, o))
		}
		out = append(out, fmt.Sprintf("SELECT count(*) FROM t WHERE %s", o), fmt.Sprintf("SELECT a FROM t WHERE %s ORDER BY a LIMIT 1", o), fmt.Sprintf("SELECT a, count(*) FROM t WHERE %s GROUP BY a", o))
	}
	// AND / OR with non-boolean and mixed operands
	for _, l := range []string{"a = 1", "c = 'x'", "a", "1", "'s'", "d", "true", "nosuch = 1", "a < c"} {
		for _, r := range []string{"b = 10", "d = true", "c", "0", "false", "a > 'x'"} {
			for _, op := range []string{"AND", "OR"} {
				out = append(out, fmt.Sprintf("SELECT * FROM t WHERE %s %s %s", l, op, r), fmt.Sprintf("SELECT %s %s %s FROM t", l, op, r), fmt.Sprintf("SELECT %s %s %s", l, op, r))
			}
		}
	}
	// every select item x every FROM
	items := []string{"*", "a", "c", "d", "t.a", "u.e", "nosuch", "a x", "a AS x", "1", "'s'", "true", "a = 1", "c = a", "a = c x",
		"count(*)", "count(a)", "count(c)", "count(nosuch)", "count(t.d)", "avg(a)", "avg(b)", "avg(c)", "avg(d)", "avg(nosuch)", "avg(u.a)", "avg(t.a)", "avg(a) m", "count(*) n", "avg(*)", "count()", "avg()", "count(*, a)", "avg(a, b)", "count(1)", "avg(1)", "count(count(a))", "avg(t.*)", "count(t.*)"}
	for _, it := range items {
		for _, f := range froms {
			out = append(out, fmt.Sprintf("SELECT %s FROM %s", it, f))
		}
		out = append(out, "SELECT "+it)
	}
	// pairs of items on t, with GROUP BY spellings
	for _, i1 := range items {
		for _, i2 := range items {
			out = append(out, fmt.Sprintf("SELECT %s, %s FROM t", i1, i2))
			// (the same pair over no rows at all: an empty table, a WHERE that nothing passes)
			out = append(out, fmt.Sprintf("SELECT %s, %s FROM e", i1, i2), fmt.Sprintf("SELECT %s, %s FROM t WHERE a > 1000", i1, i2))
			for _, g := range []string{"a", "c", "d", "x", "t.a", "nosuch", "a, c", "b"} {
				if strings.HasPrefix(i1, "count") || strings.HasPrefix(i1, "avg") || strings.HasPrefix(i2, "count") || strings.HasPrefix(i2, "avg") || thorough {
					out = append(out, fmt.Sprintf("SELECT %s, %s FROM t GROUP BY %s", i1, i2, g))
				}
			}
		}
	}
	// ORDER BY every column (NULL-bearing, every type), unknown, ambiguous, duplicates; LIMIT/OFFSET extremes
	for _, f := range []string{"t", "u", "e", "dd", "t JOIN u ON t.a = u.a", "t LEFT JOIN u ON t.a = u.a"} {
		for _, k := range []string{"a", "b", "c", "d", "e", "t.a", "u.a", "nosuch", "a, b", "c DESC, d ASC", "d, c, b, a", "a DESC"} {
			out = append(out, fmt.Sprintf("SELECT * FROM %s ORDER BY %s", f, k))
			out = append(out, fmt.Sprintf("SELECT a, c FROM %s ORDER BY %s LIMIT 1", f, k))
		}
		for _, lo := range []string{"LIMIT 0", "LIMIT 9223372036854775807", "OFFSET 9223372036854775807", "LIMIT 2 OFFSET 100", "OFFSET 0 LIMIT 0", "LIMIT 1 LIMIT 2", "OFFSET 1 OFFSET 2",
			"LIMIT 9223372036854775807 OFFSET 1", "LIMIT 9223372036854775807 OFFSET 9223372036854775807", "OFFSET 9223372036854775807 LIMIT 1", "LIMIT 1 OFFSET 9223372036854775807",
			"LIMIT 4611686018427387904 OFFSET 4611686018427387904", "LIMIT 2147483648 OFFSET 2147483648"} {
			out = append(out, fmt.Sprintf("SELECT * FROM %s %s", f, lo))
		}
	}
	for _, it := range []string{"count(*)", "avg(a)", "a, count(*)", "c, avg(b)"} {
		for _, k := range []string{"a", "c", "n", "count"} {
			out = append(out, fmt.Sprintf("SELECT %s FROM t GROUP BY a ORDER BY %s", it, k))
		}
	}
	// long names: table, columns, aliases and the headers of aggregates over them (whatever is done with a result
	// - formatting included - copes with names of any length)
	long30, long100 := strings.Repeat("alias_", 5), strings.Repeat("n", 100)
	out = append(out, "SELECT * FROM inventory_of_everything", "SELECT description_of_the_item, item_identifier_number FROM inventory_of_everything",
		"SELECT count(inventory_of_everything.description_of_the_item), avg(inventory_of_everything.item_identifier_number) FROM inventory_of_everything",
		"SELECT inventory_of_everything.item_identifier_number, count(*) FROM inventory_of_everything GROUP BY inventory_of_everything.item_identifier_number",
		"SELECT description_of_the_item = 'a thing' FROM inventory_of_everything", "SELECT * FROM inventory_of_everything i JOIN t ON i.item_identifier_number = t.a",
		"SELECT a AS "+long30+" FROM t", "SELECT count(*) AS "+long30+", avg(a) "+long30+"2 FROM t", "SELECT 1 AS "+long100, "SELECT c "+long100+" FROM t ORDER BY "+long100,
		"SELECT a AS a_name_of_19_chars_, c AS a_name_of_18_chars, d AS a_name_of_17_char FROM t", "SELECT 'a literal that is much longer than any column of the table'", "SELECT 123456789012345678 = 123456789012345678")
	out = append(out, "SELECT * FROM sys_pages", "SELECT * FROM sys_schema ORDER BY field_length", "SELECT count(*), table_name FROM sys_schema GROUP BY table_name",
		"SELECT * FROM z", "SELECT count(*) FROM z", "SELECT a FROM z", "SELECT * FROM z ORDER BY a", "SELECT * FROM z LIMIT 1",
		"SELECT d FROM t JOIN z ON 1 = 1", "SELECT a, c FROM z JOIN t ON 1 = 1", "SELECT * FROM t LEFT JOIN z ON 1 = 1", "SELECT c, d FROM t RIGHT JOIN z ON 1 = 1",
		"SELECT count(*), avg(a) FROM t JOIN z ON 1 = 1", "SELECT * FROM z JOIN z z2 ON 1 = 1", "SELECT e FROM z LEFT JOIN u ON 1 = 2", "SELECT e FROM u RIGHT JOIN z ON 1 = 2",
		"SELECT d, c FROM t JOIN z ON 1 = 1 ORDER BY c LIMIT 2 OFFSET 1", "SELECT a, count(*) FROM t JOIN z ON 1 = 1 GROUP BY a",
		"SELECT 1", "SELECT 1, 'x', true", "SELECT count(*)", "SELECT avg(a)", "SELECT a", "SELECT * ", "SELECT 1 LIMIT 1", "SELECT 1 ORDER BY a", "SELECT 1 WHERE 1 = 1", "SELECT 1 GROUP BY a",
		"SHOW DATABASE", "SHOW databases", "SELECT", "SELECT FROM t", "SELECT * FROM", "SELECT * FROM t WHERE", "SELECT * FROM t ORDER BY", "SELECT * FROM t GROUP BY")
	return out
}

// c18Mutations: statements that change state; each runs on a fresh database.
func c18Mutations() []string {
	var out []string
	vals := []string{"1", "2147483648", "9223372036854775807", "'x'", "''", "true"}
	for _, tbl := range []string{"t", "u", "e", "dd", "nosuch", "sys_pages", "sys_schema"} {
		for _, v1 := range vals {
			out = append(out, fmt.Sprintf("INSERT INTO %s VALUES (%s)", tbl, v1))
			for _, v2 := range vals {
				out = append(out, fmt.Sprintf("INSERT INTO %s VALUES (%s, %s)", tbl, v1, v2))
				out = append(out, fmt.Sprintf("INSERT INTO %s (a, c) VALUES (%s, %s)", tbl, v1, v2))
			}
			out = append(out, fmt.Sprintf("UPDATE %s SET a = 1 WHERE %s", tbl, v1), fmt.Sprintf("DELETE FROM %s WHERE %s", tbl, v1))
			out = append(out, fmt.Sprintf("INSERT INTO %s VALUES (1, 10, %s, true), (%s, 1, 'z', false)", tbl, v1, v1))
			out = append(out, fmt.Sprintf("INSERT INTO %s (nosuch) VALUES (%s)", tbl, v1))
			out = append(out, fmt.Sprintf("INSERT INTO %s (a, a) VALUES (%s, %s)", tbl, v1, v1))
			for _, col := range []string{"a", "b", "c", "d", "e", "nosuch", "table_name", "file_offset"} {
				out = append(out, fmt.Sprintf("UPDATE %s SET %s = %s", tbl, col, v1))
				out = append(out, fmt.Sprintf("UPDATE %s SET %s = %s WHERE %s = %s", tbl, col, v1, col, v1))
				out = append(out, fmt.Sprintf("DELETE FROM %s WHERE %s = %s", tbl, col, v1))
				out = append(out, fmt.Sprintf("DELETE FROM %s WHERE %s < %s", tbl, col, v1))
			}
		}
		out = append(out, "DELETE FROM "+tbl, fmt.Sprintf("UPDATE %s SET a = b", tbl), fmt.Sprintf("UPDATE %s SET a = 1, a = 2", tbl), fmt.Sprintf("UPDATE %s SET a = 1 WHERE c AND d", tbl),
			fmt.Sprintf("DELETE FROM %s WHERE a", tbl), fmt.Sprintf("DELETE FROM %s WHERE 1", tbl), fmt.Sprintf("DELETE FROM %s WHERE a = 1 OR c", tbl), "INSERT INTO "+tbl+" VALUES ()", "INSERT INTO "+tbl+" () VALUES ()",
			// statements that stop where a list would begin (whichever of them the parser lets through)
			"INSERT INTO "+tbl+" VALUES", "INSERT INTO "+tbl+" (a, c) VALUES", "INSERT INTO "+tbl, "INSERT INTO "+tbl+" (a)", "INSERT INTO "+tbl+" VALUES (1), ()",
			"UPDATE "+tbl+" SET", "UPDATE "+tbl, "DELETE FROM "+tbl+" WHERE", "CREATE TABLE "+tbl+"x", "CREATE TABLE "+tbl+"y (")
	}
	out = append(out,
		"CREATE TABLE t (a int)", "CREATE TABLE n1 ()", "CREATE TABLE (a int)", "CREATE TABLE n2 (a int, a int)", "CREATE TABLE n3 (a varchar(0))", "CREATE TABLE n4 (a varchar(9223372036854775807))",
		"CREATE TABLE sys_pages (a int)", "CREATE TABLE n5 (a int, b bigint, c varchar(255), d boolean, e int, f int, g int, h int, i int, j int, k int, l int)",
		"CREATE DATABASE d", "CREATE DATABASE D", "CREATE DATABASE other", "USE d", "USE D", "USE other", "USE nosuchdb",
		"INSERT INTO t VALUES (1, 10, '"+strings.Repeat("w", 500)+"', true)", "UPDATE t SET c = '"+strings.Repeat("w", 500)+"'",
	)
	return out
}

// c18Scripts: short statement lists on one database (state built up by earlier statements meets the next one):
// deletions and updates in every part of a full leaf followed by the insertion that splits it, refused statements
// followed by accepted ones, a table emptied and filled again.
func c18Scripts() [][]string {
	var out [][]string
	ins9 := "INSERT INTO s8 VALUES (9, 'r9')"
	for _, first := range []string{
		"DELETE FROM s8 WHERE a = 1", "DELETE FROM s8 WHERE a = 4", "DELETE FROM s8 WHERE a = 5", "DELETE FROM s8 WHERE a = 6", "DELETE FROM s8 WHERE a = 8",
		"DELETE FROM s8 WHERE a > 4", "DELETE FROM s8 WHERE a <= 4", "DELETE FROM s8",
		"UPDATE s8 SET c = 'longer than before, by far' WHERE a > 5", "UPDATE s8 SET c = '' WHERE a < 4",
		"INSERT INTO s8 VALUES (9, '" + strings.Repeat("w", 500) + "')", "UPDATE s8 SET c = '" + strings.Repeat("w", 500) + "' WHERE a = 6",
		"INSERT INTO s8 (a) VALUES (9)", "INSERT INTO s8 VALUES (9, 'x', 1)",
	} {
		out = append(out, []string{first, ins9, "INSERT INTO s8 VALUES (10, 'r10'), (11, 'r11')", "SELECT * FROM s8 WHERE a > 3 ORDER BY a DESC", "DELETE FROM s8 WHERE a = 9", "UPDATE s8 SET c = 'z'"})
		out = append(out, []string{first, first, ins9, "SELECT count(*) FROM s8"})
	}
	// a table that is created and still empty when the database is opened again (restart, re-selection, with or
	// without a timer flush before): every kind of statement on it, and on the empty table of the set-up
	for _, again := range [][]string{{"<restart>"}, {"USE d"}, {"<tick>", "<restart>"}, {"<tick>", "USE d"}} {
		for _, stmts := range [][]string{
			{"SELECT * FROM e2", "SELECT count(*), avg(a) FROM e2", "SELECT * FROM e"},
			{"SELECT * FROM t JOIN e2 ON t.a = e2.a", "SELECT * FROM e2 LEFT JOIN t ON t.a = e2.a", "SELECT * FROM t RIGHT JOIN e2 ON t.a = e2.a"},
			{"UPDATE e2 SET a = 1", "SELECT * FROM e2"},
			{"DELETE FROM e2", "SELECT * FROM e2"},
			{"DELETE FROM e2 WHERE a = 1", "UPDATE e2 SET c = 'x' WHERE a > 0"},
			{"INSERT INTO e2 VALUES (1, 'x')", "SELECT * FROM e2", "UPDATE e2 SET c = 'y'", "DELETE FROM e2"},
			{"INSERT INTO e VALUES (1)", "SELECT * FROM e", "DELETE FROM e"},
			{"CREATE TABLE e3 (b bigint)", "SELECT * FROM e2", "SELECT * FROM e3"},
		} {
			for _, first := range [][]string{{"CREATE TABLE e2 (a int, c varchar(255))"}, {"INSERT INTO s8 VALUES (9, 'r9')", "<tick>", "CREATE TABLE e2 (a int, c varchar(255))"}} {
				out = append(out, append(append(append([]string{}, first...), again...), stmts...))
			}
		}
	}
	// one long list at real page capacities: a table grown through the first split of its root interior page
	// (about 1165 rows), then single statements of every kind on it
	deep := []string{"CREATE TABLE big (a int, c varchar(255))"}
	for base := 1; base <= 1200; base += 50 {
		var rows []string
		for k := base; k < base+50; k++ {
			rows = append(rows, fmt.Sprintf("(%d, 'r%d')", k, k))
		}
		deep = append(deep, "INSERT INTO big VALUES "+strings.Join(rows, ", "))
	}
	deep = append(deep, "INSERT INTO big VALUES (1201, 'r1201')", "DELETE FROM big WHERE a = 1199", "DELETE FROM big WHERE a = 600", "UPDATE big SET c = 'z' WHERE a = 1180",
		"UPDATE big SET c = 'z' WHERE a = 3", "INSERT INTO big VALUES (1202, 'r1202'), (1203, 'r1203')", "SELECT count(*) FROM big", "SELECT * FROM big WHERE a > 1150 ORDER BY a DESC LIMIT 5",
		"DELETE FROM big WHERE a > 1100", "INSERT INTO big VALUES (1204, 'r1204')", "SELECT count(*), avg(a) FROM big")
	out = append(out, deep)
	return out
}

func runC18(env *lib.Env, rep *lib.Report) {
	lib.SilenceStderr()
	defer lib.RestoreStderr()
	selects := c18Selects(env.Thorough())
	muts := c18Mutations()
	states := []string{"selected", "no-use", "failed-use", "failed-use-after-use", "selected-after-restart"}
	rep.Bounds["read-only statements"] = len(selects)
	rep.Bounds["mutating statements (each on a fresh database)"] = len(muts)
	rep.Bounds["after each mutating statement"] = "SELECT * FROM t; one tick of every flush timer that exists; USE d; SELECT * FROM t"
	rep.Bounds["session states"] = states
	rep.Bounds["database"] = "t(a int,b bigint,c varchar,d boolean) with NULLs in every column and a duplicate row; u(a,e) with a NULL; empty table e; dd(a int, a varchar) and the column-less z with two rows if they can be created"
	fails := map[string]int{}
	known := env.OpenKnown()
	var n int64
	var scriptSoFar []string // the statements of the list executed before the one being judged (for replay)
	judge := func(state, q string, err error) {
		n++
		outcome := "error"
		if err == nil {
			outcome = "ok"
		}
		pe, isPanic := err.(*panicErr)
		if isPanic {
			outcome = "PANIC"
		}
		rep.AddCase(err == nil || !strings.Contains(fmt.Sprint(err), "unable to parse sql"), lib.HashString(state+"|"+q), lib.HashString(outcome))
		if rep.WantSample() && err == nil {
			rep.AddSample(map[string]any{"state": state, "statement": clip(q, 120), "outcome": outcome})
		}
		if !isPanic {
			return
		}
		kind, msg := "panic", fmt.Sprint(pe.val)
		if _, fuel := pe.val.(storage.VerifFuelExhausted); fuel {
			kind, msg = "hang", "more than the allowed page fetches in one statement"
		}
		where := trimStack(pe.stack)
		fn := firstLine(where)
		if i := strings.LastIndex(fn, "("); i > 0 {
			fn = fn[:i] // drop the argument values
		}
		key := kind + ":" + msg + "@" + fn
		fails[key]++
		f := &lib.Failure{Kind: kind, Detail: fmt.Sprintf("[session state %s] %s\n %s\n%s", state, clip(q, 200), msg, where), Trace: append([]string{state, q}, scriptSoFar...)}
		if _, open := known["D26-catalog-writable"]; open && c18MutatesCatalog(q) {
			f.Known = "D26-catalog-writable"
		}
		if fails[key] <= 2 || f.Known != "" {
			// (executions claimed by an open known finding are all handed to the report, which counts them under
			// the finding; the counter of unexplained failures is for the others)
			rep.AddFailure(f)
		} else {
			rep.FailCount++
		}
	}
	if env.Replay != "" {
		rf := lib.LoadReplay(env.Replay)
		lib.RestoreStderr()
		w, err := c18Setup(rf.Trace[0])
		if err != nil {
			panic(lib.HarnessError{Msg: err.Error()})
		}
		defer w.destroy()
		watch := storage.VerifWatchReadLocks()
		if len(rf.Trace) > 2 {
			// a statement list: the earlier statements first
			for _, q := range rf.Trace[2:] {
				e := guard(func() error { return w.sess.ExecQuery(q) })
				lib.Say("replay [%s] %s -> %v", rf.Trace[0], q, e)
			}
		}
		storage.VerifSetFuel(worldFuel)
		stmtText := rf.Trace[1]
		if i := strings.Index(stmtText, "   [statement "); i >= 0 {
			stmtText = stmtText[:i]
		}
		e := guard(func() error { return w.sess.ExecQuery(stmtText) })
		lib.Say("replay [%s] %s -> %v", rf.Trace[0], rf.Trace[1], e)
		judge(rf.Trace[0], rf.Trace[1], e)
		if n := watch(); n > 0 {
			rep.AddFailure(&lib.Failure{Kind: "hang", Detail: fmt.Sprintf("the statement asks for the shared store lock %d time(s) while already holding it", n), Trace: rf.Trace})
		}
		if !storage.VerifLockFree(w.sess.RelationService) {
			rep.AddFailure(&lib.Failure{Kind: "hang", Detail: "the statement returned but still holds the store lock", Trace: rf.Trace})
		}
		return
	}
	// a fatal runtime error (unlock of an unlocked mutex, stack overflow) cannot be recovered: the statement in
	// progress is kept in a memory-mapped journal the driver reads when the worker dies
	var prog lib.Progress
	prog.MapJournal(env.Journal)
	defer prog.Done()
	// the statements run without a flush timer; what a timer tick in the middle of a statement would turn into a
	// hang is watched for directly: the shared store lock requested while it is already held
	recursiveReadLocks := storage.VerifWatchReadLocks()
	idx := 0
	for _, state := range states {
		// read-only statements share one database per (state, shard)
		w, err := c18Setup(state)
		if err != nil {
			panic(lib.HarnessError{Msg: "C18 setup: " + err.Error()})
		}
		recursiveReadLocks = storage.VerifWatchReadLocks() // (the set-up re-installs the hooks)
		for _, q := range selects {
			idx++
			if idx%env.NShards != env.Shard {
				continue
			}
			prog.Set("session state "+state, q)
			storage.VerifSetFuel(worldFuel)
			e := guard(func() error { return w.sess.ExecQuery(q) })
			storage.VerifSetFuel(-1)
			judge(state, q, e)
			if n := recursiveReadLocks(); n > 0 {
				fails["recursive-read-lock"]++
				if fails["recursive-read-lock"] <= 2 {
					rep.AddFailure(&lib.Failure{Kind: "hang", Detail: fmt.Sprintf("[session state %s] %s asks for the shared store lock %d time(s) while already holding it: it blocks for ever as soon as the flush timer asks for the lock in between", state, clip(q, 200), n), Trace: []string{state, q}})
				} else {
					rep.FailCount++
				}
			}
			if !storage.VerifLockFree(w.sess.RelationService) {
				rep.AddFailure(&lib.Failure{Kind: "hang", Detail: fmt.Sprintf("[session state %s] %s returned (%v) but still holds the store lock: the next timer flush, CREATE TABLE or USE blocks forever", state, clip(q, 200), e), Trace: []string{state, q}})
				break
			}
		}
		w.destroy()
		for _, q := range muts {
			idx++
			if idx%env.NShards != env.Shard {
				continue
			}
			w, err := c18Setup(state)
			if err != nil {
				panic(lib.HarnessError{Msg: "C18 setup: " + err.Error()})
			}
			recursiveReadLocks = storage.VerifWatchReadLocks()
			prog.Set("session state "+state+" (fresh database)", q)
			storage.VerifSetFuel(worldFuel)
			e := guard(func() error { return w.sess.ExecQuery(q) })
			storage.VerifSetFuel(-1)
			judge(state, q, e)
			if n := recursiveReadLocks(); n > 0 {
				fails["recursive-read-lock"]++
				if fails["recursive-read-lock"] <= 2 {
					rep.AddFailure(&lib.Failure{Kind: "hang", Detail: fmt.Sprintf("[session state %s] %s asks for the shared store lock %d time(s) while already holding it: it blocks for ever as soon as the flush timer asks for the lock in between", state, clip(q, 200), n), Trace: []string{state, q}})
				} else {
					rep.FailCount++
				}
			}
			if !storage.VerifLockFree(w.sess.RelationService) {
				rep.AddFailure(&lib.Failure{Kind: "hang", Detail: fmt.Sprintf("[session state %s] %s returned (%v) but still holds the store lock: the next timer flush, CREATE TABLE or USE blocks forever", state, clip(q, 200), e), Trace: []string{state, q}})
			}
			// the session must still answer a plain query afterwards
			storage.VerifSetFuel(worldFuel)
			e2 := guard(func() error { return w.sess.ExecQuery("SELECT * FROM t") })
			storage.VerifSetFuel(-1)
			judge(state, q+" ; SELECT * FROM t", e2)
			// ... and whatever the statement left running: every flush timer that exists now fires once, then the
			// database is selected (again) and queried
			for _, st := range storage.VerifStores() {
				if st.Flusher && !st.Dead && st.Alive() {
					st := st
					judge(state, q+" ; <flush timer tick>", guard(func() error { return st.Tick() }))
				}
			}
			storage.VerifSetFuel(worldFuel)
			e3 := guard(func() error { return w.sess.ExecQuery("USE d") })
			judge(state, q+" ; <tick> ; USE d", e3)
			e4 := guard(func() error { return w.sess.ExecQuery("SELECT * FROM t") })
			storage.VerifSetFuel(-1)
			judge(state, q+" ; <tick> ; USE d ; SELECT * FROM t", e4)
			w.destroy()
		}
	}
	// statement lists (each on a fresh database, session state "selected")
	scripts := c18Scripts()
	rep.Bounds["statement lists"] = fmt.Sprintf("%d lists of 4-8 statements: on a table one row short of its first split, and on a table that is still empty when the database is opened again (restart or re-selection, with and without a timer flush before); one list of %d statements that grows a table to 1200 rows at real page capacities (through the first split of its root interior page) and then runs statements of every kind on it", len(scripts)-1, len(scripts[len(scripts)-1]))
	for si, script := range scripts {
		if si%env.NShards != env.Shard {
			continue
		}
		w, err := c18Setup("selected")
		if err != nil {
			panic(lib.HarnessError{Msg: "C18 setup: " + err.Error()})
		}
		recursiveReadLocks = storage.VerifWatchReadLocks()
		for qi, q := range script {
			label := fmt.Sprintf("%s   [statement %d of the list %q]", q, qi+1, script[:qi])
			if len(script) > 8 {
				label = fmt.Sprintf("%s   [statement %d of the %d-statement list that grows table big]", q, qi+1, len(script))
			}
			scriptSoFar = script[:qi]
			prog.Set("statement list", label)
			storage.VerifSetFuel(worldFuel)
			var e error
			switch q {
			case "<tick>":
				// the flush timer of every open store fires once
				e = guard(func() error {
					for _, st := range storage.VerifStores() {
						if st.Flusher && !st.Dead && st.Alive() {
							if err := st.Tick(); err != nil {
								return err
							}
						}
					}
					return nil
				})
			case "<restart>":
				// clean shutdown, start-up recovery, a new session on the same database
				e = guard(func() error {
					rs := w.sess.RelationService
					if err := w.sess.Close(); err != nil {
						return err
					}
					storage.VerifMarkClosed(rs)
					storage.VerifForgetStores()
					if err := storage.InitStorage(); err != nil {
						return err
					}
					storage.VerifForgetStores()
					w.sess = &Session{}
					return w.sess.ExecQuery("USE d")
				})
				recursiveReadLocks()
			default:
				e = guard(func() error { return w.sess.ExecQuery(q) })
			}
			storage.VerifSetFuel(-1)
			judge("selected", label, e)
			if _, isPanic := e.(*panicErr); isPanic {
				break
			}
			if n := recursiveReadLocks(); n > 0 || !storage.VerifLockFree(w.sess.RelationService) {
				rep.AddFailure(&lib.Failure{Kind: "hang", Detail: fmt.Sprintf("%s: the store lock is requested while held (%d) or left held", clip(label, 300), n), Trace: []string{"selected", label}})
				break
			}
		}
		scriptSoFar = nil
		w.destroy()
	}
	for k, v := range fails {
		lib.Say("C18 failure class %d x %s", v, strings.ReplaceAll(k, "\n", " "))
	}
	rep.Bounds["statements executed (this shard)"] = n
}

func firstLine(s string) string {
	if i := strings.Index(s, "\n"); i >= 0 {
		rest := s[i+1:]
		if j := strings.Index(rest, "\n"); j >= 0 {
			return rest[:j]
		}
		return rest
	}
	return s
}

// c18MutatesCatalog: the D26 predicate (input only): an INSERT / UPDATE /
// DELETE whose target is a catalog table.
func c18MutatesCatalog(q string) bool {
	first := strings.SplitN(q, ";", 2)[0]
	u := strings.ToUpper(first)
	if !(strings.HasPrefix(u, "INSERT") || strings.HasPrefix(u, "UPDATE") || strings.HasPrefix(u, "DELETE")) {
		return false
	}
	f := strings.Fields(strings.ToLower(first))
	for i, w := range f {
		if (w == "into" || w == "update" || w == "from") && i+1 < len(f) {
			return f[i+1] == "sys_pages" || f[i+1] == "sys_schema"
		}
	}
	return false
}
