package engine

import (
	"fmt"

	"verif/lib"
)

// C01 — table contents equal what the statement history implies.
// C11 — B+ tree shape invariants after every operation (same histories plus
// flushes, clean restarts and crashes, at reduced capacities so that trees of
// three and four levels appear within a few dozen rows).

var fullAlpha = alphaOpt{Tables: []string{"t1", "t2", "t3"}, Inserts: []int{1, 4, 9}, BigInsert: true, NullInsert: true, EmptyInsert: true, FailingInsert: true, Updates: true, Deletes: true}
var twoAlpha = alphaOpt{Tables: []string{"t1", "t2"}, Inserts: []int{1, 9}, BigInsert: false, Updates: true, Deletes: true}

func init() {
	verifChecks["C01"] = runC01
	verifChecks["C11"] = runC11
}

func runC01(env *lib.Env, rep *lib.Report) {
	d := 3
	if env.Thorough() {
		d = 4
	}
	real := worldOpt{}
	small := worldOpt{Leaf: 3, Internal: 3}
	var cfgs []histCfg
	for _, seed := range []string{"empty", "t1x8", "t1x8-upper-deleted", "interleaved", "t1x30", "catalog-split"} {
		cfgs = append(cfgs, histCfg{Name: "real/" + seed, Opt: real, Seed: seed, Alpha: fullAlpha, Depth: d, FinalReopen: true})
	}
	for _, seed := range []string{"empty", "t1x8-upper-deleted", "interleaved"} {
		cfgs = append(cfgs, histCfg{Name: "leaf3-int3/" + seed, Opt: small, Seed: seed, Alpha: fullAlpha, Depth: d, FinalReopen: true})
	}
	// statements on the oldest and the newest table of a catalog whose page table has split, with timer flushes
	// in between (a root change of an old table then touches a clean page-table leaf)
	cfgs = append(cfgs, histCfg{Name: "real/catalog-split/c0+c7+ticks", Opt: real, Seed: "catalog-split",
		Alpha: alphaOpt{Tables: []string{"c0", "c7"}, Inserts: []int{1, 9}, Updates: true, Deletes: true, FewDeletes: true}, Depth: d, TickChoice: true, Reselect: true, FinalReopen: true})
	// three-level trees at reduced capacity, every alignment of the right-most leaf (9..30 seed rows): single-row
	// inserts and deletions of the newest row, so that leaves split with a tombstone behind a live row in the half
	// that moves (leaf capacity >= 5) while the root stays as it is (the level below absorbs the split); the restart
	// at the end replays the whole log against those pages
	for n := 9; n <= 30; n++ {
		name := singleRowSeed(n)
		for _, caps := range [][2]int{{5, 3}, {6, 4}, {5, 8}} {
			cfgs = append(cfgs, histCfg{Name: fmt.Sprintf("leaf%d-int%d/%s", caps[0], caps[1], name), Opt: worldOpt{Leaf: caps[0], Internal: caps[1]}, Seed: name,
				Alpha: alphaOpt{Tables: []string{"t1"}, Inserts: []int{1, 2}, Deletes: true}, Depth: d, FinalReopen: true})
		}
	}
	// the same table names declared with other columns than in every other config: each worker process runs
	// histories of both kinds in turn, as a server does that opens one database after another
	cfgs = append(cfgs, histCfg{Name: "real/t1x8/other-columns", Opt: real, Seed: "t1x8", Alpha: fullAlpha, Depth: d, AltSchemas: true, FinalReopen: true})
	cfgs = append(cfgs, histCfg{Name: "real/case-twins", Opt: real, Seed: "case-twins",
		Alpha: alphaOpt{Tables: []string{"T1", "t1"}, Inserts: []int{1, 9}, Updates: true, Deletes: true, FewDeletes: true}, Depth: d, FinalReopen: true})
	// a page cache smaller than the catalog (eight tables: the look-up of a table turns the whole cache over),
	// flushed after every statement: contents do not depend on which pages happen to be resident
	cfgs = append(cfgs, histCfg{Name: "real/catalog-split/c0+c7/cache6", Opt: real, Seed: "catalog-split", CacheAfterSeed: 6,
		Alpha: alphaOpt{Tables: []string{"c0", "c7"}, Inserts: []int{1, 9}, Updates: true, Deletes: true, FewDeletes: true}, Depth: d, FinalReopen: true})
	// ... and a table of eight leaves under the same small cache: a statement over all of it has more pages to change than
	// the cache holds - it is refused for lack of room (the execution ends there) or it does all of its work
	cfgs = append(cfgs, histCfg{Name: "real/t1x30/cache6", Opt: real, Seed: "t1x30", CacheAfterSeed: 6,
		Alpha: alphaOpt{Tables: []string{"t1"}, Inserts: []int{1, 9}, Updates: true, Deletes: true}, Depth: d, FinalReopen: true})
	// deeper, with a two-table alphabet, from the empty database
	cfgs = append(cfgs, histCfg{Name: "real/empty/deep", Opt: real, Seed: "empty", Alpha: twoAlpha, Depth: d + 1, FinalReopen: true})
	rep.Bounds["depth"] = d
	rep.Bounds["configs"] = cfgNames(cfgs)
	rep.Bounds["alphabet"] = "CREATE TABLE t1/t2/t3; per table INSERT 1/4/9 rows, INSERT one 380-byte row, INSERT two rows with NULLs in every other column, UPDATE lower half/all, DELETE upper half/last/all (only statements enabled in the current state)"
	explore(env, rep, 0, histBody(cfgs, 0))
	// supplement (one execution, not an enumeration): a long deterministic history at real capacity
	if env.Shard == 0 && env.Replay == "" {
		longHistory(env, rep)
	}
}

func cfgNames(cfgs []histCfg) []string {
	var out []string
	for _, c := range cfgs {
		out = append(out, fmt.Sprintf("%s(depth %d)", c.Name, c.Depth))
	}
	return out
}

// longHistory drives one long scripted history at real capacity so that an
// internal-node split happens (~1 200 rows), checking the model periodically.
func longHistory(env *lib.Env, rep *lib.Report) {
	rows := 1500
	if env.Thorough() {
		rows = 6000
	}
	saved := worldFuel
	worldFuel = 4000000
	defer func() { worldFuel = saved }()
	body := func(c *lib.Ctx) {
		w := newWorld(c, worldOpt{})
		defer func() { w.destroy() }()
		ok := w.do(mkCreate("t1", worldSchemas["t1"])) && w.do(mkCreate("t2", worldSchemas["t2"]))
		for i := 0; ok && w.model.Tables["t1"].Inserted < rows; i++ {
			ok = w.do(mkInsert(w.model, "t1", 7, false)) && w.do(mkInsert(w.model, "t2", 3, false))
			if ok && i%10 == 3 {
				ok = w.do(mkDelete(w.model, "t1", seqPred{"=", w.model.Tables["t1"].Inserted - 2}))
			}
			if ok && i%25 == 7 {
				ok = w.tick()
			}
			if ok && i%50 == 0 {
				ok = w.checkAll(fmt.Sprintf("long history, %d rows", w.model.Tables["t1"].Inserted)) && w.walk("long history")
			}
		}
		if ok {
			ok = w.checkAll("long history end") && w.walk("long history end")
		}
		c.Trace()
	}
	x := lib.RunOnce(body, nil)
	rep.Notes = append(rep.Notes, fmt.Sprintf("supplement (single execution, not exhaustive): scripted %d-row two-table history at real capacity with deletes and ticks, model + walker every 50 statements: %s",
		rows, map[bool]string{true: "FAILED", false: "ok"}[x.Fail != nil]))
	if x.Fail != nil {
		x.Fail.Trace = x.Fail.Trace[max(0, len(x.Fail.Trace)-12):]
		x.Fail.Params = "long-history"
		rep.AddFailure(x.Fail)
	}
}

func runC11(env *lib.Env, rep *lib.Report) {
	d := 3
	if env.Thorough() {
		d = 4
	}
	alpha := alphaOpt{Tables: []string{"t1", "t2"}, Inserts: []int{1, 4, 9}, Updates: true, Deletes: true}
	var cfgs []histCfg
	for _, caps := range [][2]int{{3, 3}, {4, 3}, {3, 4}, {4, 4}} {
		for _, seed := range []string{"empty", "interleaved", "t1x30"} {
			if !env.Thorough() && caps[0] != caps[1] && seed != "interleaved" {
				continue // quick tier: the mixed capacities only from the interleaved seed
			}
			cfgs = append(cfgs, histCfg{Name: fmt.Sprintf("leaf%d-int%d/%s", caps[0], caps[1], seed), Opt: worldOpt{Leaf: caps[0], Internal: caps[1]},
				Seed: seed, Alpha: alpha, Depth: d, TickChoice: true, Reopen: true, Crash: true, Walk: true, OnlyWalk: true})
		}
	}
	for _, seed := range []string{"t1x8", "interleaved", "t1x30", "catalog-split"} {
		cfgs = append(cfgs, histCfg{Name: "real/" + seed, Opt: worldOpt{}, Seed: seed, Alpha: alpha, Depth: d, TickChoice: true, Reopen: true, Crash: true, Walk: true, OnlyWalk: true})
	}
	// the oldest and the newest table of a catalog whose page table has split, with flushes and re-selections of the
	// database (the store closed and opened again with no recovery in between)
	cfgs = append(cfgs, histCfg{Name: "real/catalog-split/c0+c7+reselect", Opt: worldOpt{}, Seed: "catalog-split",
		Alpha: alphaOpt{Tables: []string{"c0", "c7"}, Inserts: []int{1, 9}, Deletes: true, FewDeletes: true}, Depth: d, TickChoice: true, Reselect: true, Walk: true, OnlyWalk: true})
	// two tables whose names differ in letter case only: a root change of one must not touch the other's catalog row
	cfgs = append(cfgs, histCfg{Name: "real/case-twins", Opt: worldOpt{}, Seed: "case-twins",
		Alpha: alphaOpt{Tables: []string{"T1", "t1"}, Inserts: []int{1, 9}, Deletes: true, FewDeletes: true}, Depth: d, TickChoice: true, Reopen: true, Walk: true, OnlyWalk: true})
	// refused row insertions (row over the size limit) between accepted ones: the refusal must leave the leaf as it was
	refusing := alphaOpt{Tables: []string{"t1"}, Inserts: []int{1, 9}, Updates: true, FailingInsert: true}
	cfgs = append(cfgs, histCfg{Name: "real/t1x8/refused-inserts", Opt: worldOpt{}, Seed: "t1x8", Alpha: refusing, Depth: d, TickChoice: true, Reopen: true, Crash: true, Walk: true, OnlyWalk: true},
		histCfg{Name: "leaf3-int3/t1x30/refused-inserts", Opt: worldOpt{Leaf: 3, Internal: 3}, Seed: "t1x30", Alpha: refusing, Depth: d, TickChoice: true, Reopen: true, Crash: true, Walk: true, OnlyWalk: true})
	// a database that has only seen DDL (its log is empty) whose next CREATE TABLE dies inside its flush - pages on
	// disk, header not; whatever recovery makes of it, the trees that grow afterwards must not share a page
	cfgs = append(cfgs, histCfg{Name: "real/empty/crash-in-create", Opt: worldOpt{}, Seed: "empty",
		Alpha: alphaOpt{Tables: []string{"t1", "t2", "t3"}, Inserts: []int{1, 9}}, Depth: d, CrashInCreate: true, Walk: true, OnlyWalk: true},
		histCfg{Name: "real/t1x8/crash-in-create", Opt: worldOpt{}, Seed: "t1x8",
			Alpha: alphaOpt{Tables: []string{"t1", "t3"}, Inserts: []int{1, 9}}, Depth: d, TickChoice: true, CrashInCreate: true, Walk: true, OnlyWalk: true})
	// a page cache of a few pages (flushed after every statement): which pages are resident while a leaf or an
	// interior page splits is decided by the cache; the tree on disk must come out the same
	for _, cc := range []int{6, 8} {
		cfgs = append(cfgs, histCfg{Name: fmt.Sprintf("leaf3-int3/t1x30/cache%d", cc), Opt: worldOpt{Leaf: 3, Internal: 3}, CacheAfterSeed: cc,
			Seed: "t1x30", Alpha: alpha, Depth: d, Reopen: true, Walk: true, OnlyWalk: true})
	}
	cfgs = append(cfgs, histCfg{Name: "real/interleaved/cache6", Opt: worldOpt{}, CacheAfterSeed: 6,
		Seed: "interleaved", Alpha: alpha, Depth: d, Reopen: true, Walk: true, OnlyWalk: true})
	rep.Bounds["depth"] = d
	rep.Bounds["crash bound"] = 1
	rep.Bounds["configs"] = cfgNames(cfgs)
	rep.Bounds["events"] = "statements of the enabled alphabet (2 tables; INSERT 1/4/9, UPDATE, DELETE), optional TICK after each statement, CLOSE+RESTART, CRASH+RECOVER; walker after every event"
	explore(env, rep, 1, histBody(cfgs, 1))
	if env.Shard == 0 && env.Replay == "" {
		longHistory(env, rep)
	}
}
