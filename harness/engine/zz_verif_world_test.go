package engine

// World: one real mkdb instance in a scratch directory plus the reference
// model of everything that was acknowledged. Shared by the storage-facing
// checks (C01-C04, C08, C11, C14, C16, C17).

import (
	"fmt"
	"os"
	"path/filepath"
	"runtime/debug"
	"sort"
	"strings"

	"github.com/mk6i/mkdb/sql"
	"github.com/mk6i/mkdb/storage"
	"verif/lib"
)

// ---------------------------------------------------------------- model

type mCol struct {
	Name string
	Type string // int | bigint | varchar | boolean
}

type mRow struct {
	Vals []any
	ID   uint32 // learned from the implementation when the row first appears
}

type mTable struct {
	Name     string
	Cols     []mCol
	Rows     []*mRow
	Inserted int // rows ever inserted (sequence number source)
}

type mModel struct {
	Tables  map[string]*mTable
	Order   []string
	MaxID   uint32 // largest row id ever observed in an acknowledged state
	Gen     int    // statement counter (distinct update values)
	Created int
}

func newModel() *mModel { return &mModel{Tables: map[string]*mTable{}} }

func (m *mModel) clone() *mModel {
	n := &mModel{Tables: map[string]*mTable{}, Order: append([]string{}, m.Order...), MaxID: m.MaxID, Gen: m.Gen, Created: m.Created}
	for k, t := range m.Tables {
		nt := &mTable{Name: t.Name, Cols: t.Cols, Inserted: t.Inserted}
		for _, r := range t.Rows {
			nt.Rows = append(nt.Rows, &mRow{Vals: append([]any{}, r.Vals...), ID: r.ID})
		}
		n.Tables[k] = nt
	}
	return n
}

func (m *mModel) String() string {
	var sb strings.Builder
	for _, n := range m.Order {
		t := m.Tables[n]
		fmt.Fprintf(&sb, "%s:", n)
		for _, r := range t.Rows {
			fmt.Fprintf(&sb, "%v", short(r.Vals))
		}
		sb.WriteString("; ")
	}
	return sb.String()
}

func short(v []any) string {
	s := make([]string, len(v))
	for i, x := range v {
		if str, ok := x.(string); ok && len(str) > 12 {
			s[i] = fmt.Sprintf("%q..(%d)", str[:6], len(str))
		} else {
			s[i] = fmt.Sprintf("%v", x)
		}
	}
	return "[" + strings.Join(s, ",") + "]"
}

// ---------------------------------------------------------------- statements

// stmt is one generated statement: its SQL text and its effect on the model.
type stmt struct {
	SQL   string
	Kind  string // create | insert | update | delete
	Table string
	N     int // rows inserted / matched
	// MustFail: the statement is invalid (a row over the size limit) and has to be refused; it changes nothing,
	// but the engine may have used up a row id or an LSN for it
	MustFail bool
	// apply mutates the model as the acknowledged statement would; prefix >= 0
	// applies only the first prefix row operations (C03).
	apply func(m *mModel, prefix int)
}

func sqlLit(v any) string {
	switch x := v.(type) {
	case string:
		return "'" + x + "'"
	case bool:
		if x {
			return "true"
		}
		return "false"
	default:
		return fmt.Sprint(x)
	}
}

var worldSchemas = map[string][]mCol{
	"t1": {{"a", "int"}, {"c", "varchar"}},
	"t2": {{"b", "bigint"}, {"d", "boolean"}, {"c", "varchar"}},
	"t3": {{"a", "int"}, {"e", "int"}},
	"T1": {{"a", "int"}, {"c", "varchar"}}, // a second table whose name differs from t1 in letter case only (table names are case-sensitive)
}

func colDDL(c mCol) string {
	if c.Type == "varchar" {
		return c.Name + " varchar(255)"
	}
	return c.Name + " " + c.Type
}

func mkCreate(name string, cols []mCol) stmt {
	parts := make([]string, len(cols))
	for i, c := range cols {
		parts[i] = colDDL(c)
	}
	return stmt{SQL: fmt.Sprintf("CREATE TABLE %s (%s)", name, strings.Join(parts, ", ")), Kind: "create", Table: name,
		apply: func(m *mModel, _ int) {
			m.Tables[name] = &mTable{Name: name, Cols: cols}
			m.Order = append(m.Order, name)
			m.Created++
		}}
}

// seqRow builds the row with sequence number k for the table.
func seqRow(t *mTable, k int, big bool) []any {
	out := make([]any, len(t.Cols))
	for i, c := range t.Cols {
		switch {
		case i == 0:
			out[i] = int64(k)
		case c.Type == "varchar":
			if big {
				out[i] = fmt.Sprintf("B%d", k) // padded below
			} else if k%4 == 3 {
				out[i] = fmt.Sprintf("r%dé日🙂", k) // (bytes and characters differ)
			} else {
				out[i] = fmt.Sprintf("r%d", k)
			}
		case c.Type == "boolean":
			out[i] = k%2 == 0
		default:
			out[i] = int64(k * 10)
		}
	}
	if big {
		// pad the first varchar so that the row encodes to exactly the 400-byte limit
		// (per column one NULL-marker byte plus 4 / 8 / 1 / 4+len bytes)
		size, first := 0, -1
		for i, c := range t.Cols {
			size++
			switch c.Type {
			case "int":
				size += 4
			case "bigint":
				size += 8
			case "boolean":
				size++
			case "varchar":
				size += 4 + len(out[i].(string))
				if first < 0 {
					first = i
				}
			}
		}
		if first >= 0 && size < 400 {
			out[first] = out[first].(string) + strings.Repeat("x", 400-size)
		}
	}
	return out
}

func mkInsert(m *mModel, table string, n int, big bool) stmt {
	t := m.Tables[table]
	var rows [][]any
	var parts []string
	for i := 1; i <= n; i++ {
		r := seqRow(t, t.Inserted+i, big)
		rows = append(rows, r)
		lits := make([]string, len(r))
		for j, v := range r {
			lits[j] = sqlLit(v)
		}
		parts = append(parts, "("+strings.Join(lits, ", ")+")")
	}
	return stmt{SQL: fmt.Sprintf("INSERT INTO %s VALUES %s", table, strings.Join(parts, ", ")), Kind: "insert", Table: table, N: n,
		apply: func(m *mModel, prefix int) {
			t := m.Tables[table]
			for i, r := range rows {
				if prefix >= 0 && i >= prefix {
					break
				}
				t.Rows = append(t.Rows, &mRow{Vals: append([]any{}, r...)})
			}
			t.Inserted += n
		}}
}

// mkInsertEmpty is a single-row INSERT whose varchar values are empty strings.
func mkInsertEmpty(m *mModel, table string) (stmt, bool) {
	t := m.Tables[table]
	r := seqRow(t, t.Inserted+1, false)
	found := false
	lits := make([]string, len(r))
	for j, v := range r {
		if _, isStr := v.(string); isStr {
			r[j], found = "", true
		}
		lits[j] = sqlLit(r[j])
	}
	return stmt{SQL: fmt.Sprintf("INSERT INTO %s VALUES (%s)", table, strings.Join(lits, ", ")), Kind: "insert", Table: table, N: 1,
		apply: func(m *mModel, prefix int) {
			t := m.Tables[table]
			if prefix != 0 {
				t.Rows = append(t.Rows, &mRow{Vals: append([]any{}, r...)})
			}
			t.Inserted++
		}}, found
}

// mkInsertTooLarge is a single-row INSERT whose varchar value pushes the row over the 400-byte limit.
func mkInsertTooLarge(m *mModel, table string) (stmt, bool) {
	t := m.Tables[table]
	r := seqRow(t, t.Inserted+1, false)
	found := false
	lits := make([]string, len(r))
	for j, v := range r {
		if _, isStr := v.(string); isStr && !found {
			v, found = strings.Repeat("L", 420), true
		}
		lits[j] = sqlLit(v)
	}
	return stmt{SQL: fmt.Sprintf("INSERT INTO %s VALUES (%s)", table, strings.Join(lits, ", ")), Kind: "insert-refused", Table: table, MustFail: true,
		apply: func(*mModel, int) {}}, found
}

// mkUpdateTooLarge is an UPDATE of every row that would make each row exceed the 400-byte limit: it has to be
// refused and to leave every row as it was.
func mkUpdateTooLarge(m *mModel, table string) (stmt, bool) {
	t := m.Tables[table]
	for i, c := range t.Cols {
		if i > 0 && c.Type == "varchar" {
			return stmt{SQL: fmt.Sprintf("UPDATE %s SET %s = '%s'", table, c.Name, strings.Repeat("U", 430)), Kind: "update-refused", Table: table, MustFail: true,
				apply: func(*mModel, int) {}}, true
		}
	}
	return stmt{}, false
}

// mkInsertNull inserts two rows naming only the sequence column, so every
// other column of those rows is NULL (the grammar has no NULL literal).
func mkInsertNull(m *mModel, table string) stmt {
	t := m.Tables[table]
	k1, k2 := t.Inserted+1, t.Inserted+2
	return stmt{SQL: fmt.Sprintf("INSERT INTO %s (%s) VALUES (%d), (%d)", table, t.Cols[0].Name, k1, k2), Kind: "insert", Table: table, N: 2,
		apply: func(m *mModel, prefix int) {
			t := m.Tables[table]
			for i, k := range []int{k1, k2} {
				if prefix >= 0 && i >= prefix {
					break
				}
				row := make([]any, len(t.Cols))
				row[0] = int64(k)
				t.Rows = append(t.Rows, &mRow{Vals: row})
			}
			t.Inserted += 2
		}}
}

// predicate over the sequence column
type seqPred struct {
	op string // "<=", ">", "=", "" (all), "none"
	k  int
}

func (p seqPred) match(v int64) bool {
	switch p.op {
	case "<=":
		return v <= int64(p.k)
	case ">":
		return v > int64(p.k)
	case "=":
		return v == int64(p.k)
	case "none":
		return false
	}
	return true
}

func (p seqPred) where(col string) string {
	switch p.op {
	case "":
		return ""
	case "none":
		return fmt.Sprintf(" WHERE %s > 1000000", col)
	}
	return fmt.Sprintf(" WHERE %s %s %d", col, p.op, p.k)
}

func mkUpdate(m *mModel, table string, p seqPred) stmt {
	t := m.Tables[table]
	m.Gen++
	g := m.Gen
	var sets []string
	newVals := map[int]any{}
	for i, c := range t.Cols {
		if i == 0 {
			continue
		}
		switch c.Type {
		case "varchar":
			// (updates change the length of the row: by a few bytes, by 40 and by 80)
			newVals[i] = fmt.Sprintf("u%d", g) + strings.Repeat("y", (g%3)*40)
		case "boolean":
			newVals[i] = g%2 == 1
		default:
			newVals[i] = int64(1000 + g)
		}
		sets = append(sets, fmt.Sprintf("%s = %s", c.Name, sqlLit(newVals[i])))
	}
	n := 0
	for _, r := range t.Rows {
		if p.match(r.Vals[0].(int64)) {
			n++
		}
	}
	return stmt{SQL: fmt.Sprintf("UPDATE %s SET %s%s", table, strings.Join(sets, ", "), p.where(t.Cols[0].Name)), Kind: "update", Table: table, N: n,
		apply: func(m *mModel, prefix int) {
			done := 0
			for _, r := range m.Tables[table].Rows {
				if !p.match(r.Vals[0].(int64)) {
					continue
				}
				if prefix >= 0 && done >= prefix {
					break
				}
				for i, v := range newVals {
					r.Vals[i] = v
				}
				done++
			}
		}}
}

// mkUpdateHeld is an UPDATE of every row that sets the last column to the value the middle row already holds
// and every other non-key column to a value no row holds: rows that are partly up to date before the statement.
func mkUpdateHeld(m *mModel, table string) (stmt, bool) {
	t := m.Tables[table]
	if len(t.Cols) < 3 || len(t.Rows) < 3 {
		return stmt{}, false
	}
	mid := t.Rows[len(t.Rows)/2]
	last := len(t.Cols) - 1
	if mid.Vals[last] == nil {
		return stmt{}, false
	}
	var sets []string
	newVals := map[int]any{}
	for i, c := range t.Cols {
		switch {
		case i == 0:
			continue
		case i == last:
			newVals[i] = mid.Vals[i]
		case c.Type == "varchar":
			newVals[i] = fmt.Sprintf("h%d", mid.Vals[0])
		case c.Type == "boolean":
			b, _ := mid.Vals[i].(bool)
			newVals[i] = !b
		default:
			newVals[i] = int64(7000) + mid.Vals[0].(int64)
		}
		sets = append(sets, fmt.Sprintf("%s = %s", c.Name, sqlLit(newVals[i])))
	}
	return stmt{SQL: fmt.Sprintf("UPDATE %s SET %s", table, strings.Join(sets, ", ")), Kind: "update", Table: table, N: len(t.Rows),
		apply: func(m *mModel, prefix int) {
			done := 0
			for _, r := range m.Tables[table].Rows {
				if prefix >= 0 && done >= prefix {
					break
				}
				for i, v := range newVals {
					r.Vals[i] = v
				}
				done++
			}
		}}, true
}

func mkDelete(m *mModel, table string, p seqPred) stmt {
	t := m.Tables[table]
	n := 0
	for _, r := range t.Rows {
		if p.match(r.Vals[0].(int64)) {
			n++
		}
	}
	return stmt{SQL: fmt.Sprintf("DELETE FROM %s%s", table, p.where(t.Cols[0].Name)), Kind: "delete", Table: table, N: n,
		apply: func(m *mModel, prefix int) {
			t := m.Tables[table]
			var keep []*mRow
			done := 0
			for _, r := range t.Rows {
				if p.match(r.Vals[0].(int64)) && (prefix < 0 || done < prefix) {
					done++
					continue
				}
				keep = append(keep, r)
			}
			t.Rows = keep
		}}
}

// ---------------------------------------------------------------- world

type worldOpt struct {
	Leaf, Internal, Cache int // 0 = real values
	RealClock             bool
	AutoTick              bool // timer flush after every successful statement
	TolerateCacheFull     bool // ErrLRUCacheFull ends the run quietly (C16 precondition)
}

type panicErr struct {
	val   any
	stack string
}

func (p *panicErr) Error() string { return fmt.Sprintf("PANIC: %v", p.val) }

type world struct {
	c       *lib.Ctx
	opt     worldOpt
	dir     string
	sess    *Session
	model   *mModel
	writes  []storage.VerifWrite
	capture bool
	dead    bool
	// table of an in-flight CREATE TABLE that the catalog check must tolerate
	ignoreTable string
	cacheFull   bool // a statement hit ErrLRUCacheFull (only with TolerateCacheFull)
	scheduled   bool // statements run under the C13 scheduler (a parked flusher may hold the lock)
	window      *storage.VerifWindow // (C13 seeds) sequential statement-window monitor for INSERT / UPDATE / DELETE
}

var (
	worldSeq  int
	worldHome string
)

func worldScratch() string {
	worldSeq++
	d := filepath.Join(lib.ScratchRoot(), fmt.Sprintf("w%d", worldSeq))
	if err := os.MkdirAll(d, 0755); err != nil {
		panic(lib.HarnessError{Msg: err.Error()})
	}
	return d
}

// guard runs f converting panics of the code under test into *panicErr.
func guard(f func() error) (err error) {
	defer func() {
		if x := recover(); x != nil {
			if he, ok := x.(lib.HarnessError); ok {
				panic(he)
			}
			err = &panicErr{val: x, stack: string(debug.Stack())}
		}
	}()
	return f()
}

var worldFuel int64 = 40000 // page fetches allowed per operation (x4 for recovery / walker); longHistory raises it

// newWorld creates a fresh database "d" in a fresh directory and selects it.
func newWorld(c *lib.Ctx, opt worldOpt) *world {
	if worldHome == "" {
		worldHome, _ = os.Getwd()
	}
	w := &world{c: c, opt: opt, model: newModel()}
	storage.VerifInstall(!opt.RealClock, opt.Leaf, opt.Internal, opt.Cache)
	storage.VerifOnWrite(func(e storage.VerifWrite) {
		if w.capture {
			w.writes = append(w.writes, e)
		}
	})
	w.dir = worldScratch()
	if err := os.Chdir(w.dir); err != nil {
		panic(lib.HarnessError{Msg: err.Error()})
	}
	if err := guard(storage.InitStorage); err != nil {
		panic(lib.HarnessError{Msg: "InitStorage on an empty directory: " + err.Error()})
	}
	w.sess = &Session{}
	for _, q := range []string{"CREATE DATABASE d", "USE d"} {
		if err := w.exec(q); err != nil {
			panic(lib.HarnessError{Msg: q + ": " + err.Error()})
		}
	}
	return w
}

func (w *world) exec(q string) error {
	storage.VerifSetFuel(worldFuel)
	watched := w.window != nil && (strings.HasPrefix(q, "INSERT") || strings.HasPrefix(q, "UPDATE") || strings.HasPrefix(q, "DELETE"))
	if watched {
		w.window.Begin(clip(q, 80))
	}
	err := guard(func() error { return w.sess.ExecQuery(q) })
	if watched {
		for _, p := range w.window.End() {
			w.c.Fail("write-inside-statement", "%s", p)
		}
	}
	storage.VerifSetFuel(-1)
	if !w.opt.RealClock && !w.scheduled && !storage.VerifLockFree(w.sess.RelationService) {
		// the flusher is idle (manual clock) and the statement has returned: nobody may hold the lock
		w.c.Fail("lock-leaked", "%s returned (%v) but the store lock is still held: the next flush or CREATE TABLE blocks forever", clip(q, 120), err)
	}
	return err
}

// do executes a generated statement that the model says must succeed.
func (w *world) do(s stmt) bool {
	w.c.Logf("%s", clip(s.SQL, 160))
	if s.MustFail {
		err := w.exec(s.SQL)
		if _, isPanic := err.(*panicErr); isPanic {
			w.failErr("statement-failed", s.SQL, err)
			return false
		}
		if err == nil {
			w.c.Fail("invalid-statement-accepted", "%s was accepted although it is invalid (a row over the size limit, a table that exists)", clip(s.SQL, 100))
			return false
		}
		return true
	}
	if err := w.exec(s.SQL); err != nil {
		if w.opt.TolerateCacheFull && strings.Contains(err.Error(), "cache is full") {
			w.cacheFull = true
			return false
		}
		w.failErr("statement-failed", s.SQL, err)
		return false
	}
	s.apply(w.model, -1)
	if w.opt.AutoTick {
		var terr error
		if perr := guard(func() error { terr = w.store().Tick(); return nil }); perr != nil {
			w.failErr("flush-failed", "timer flush", perr)
			return false
		}
		if terr != nil {
			w.c.Fail("flush-failed", "timer flush: %v", terr)
			return false
		}
	}
	return true
}

func clip(s string, n int) string {
	if len(s) > n {
		return s[:n] + fmt.Sprintf("…(%d bytes)", len(s))
	}
	return s
}

func (w *world) failErr(kind, what string, err error) {
	if pe, ok := err.(*panicErr); ok {
		if _, fuel := pe.val.(storage.VerifFuelExhausted); fuel {
			w.c.Fail("hang", "%s: more than %d page fetches in one operation (cycle in the page graph / unbounded recursion)", clip(what, 120), worldFuel)
			return
		}
		w.c.Fail("panic", "%s: %v\n%s", clip(what, 120), pe.val, trimStack(pe.stack))
		return
	}
	w.c.Fail(kind, "%s: %v", clip(what, 120), err)
}

func trimStack(s string) string {
	lines := strings.Split(s, "\n")
	var keep []string
	for _, l := range lines {
		if strings.Contains(l, "mkdb/") && !strings.Contains(l, "zz_verif") {
			keep = append(keep, strings.TrimSpace(l))
		}
		if len(keep) >= 8 {
			break
		}
	}
	return strings.Join(keep, "\n")
}

// store returns the tracked store of the session's current database.
func (w *world) store() *storage.VerifStore { return storage.VerifStoreOf(w.sess.RelationService) }

// tick runs one timer flush of the current database.
func (w *world) tick() bool {
	w.c.Logf("TICK")
	var err error
	perr := guard(func() error { err = w.store().Tick(); return nil })
	if perr != nil {
		w.failErr("flush-failed", "timer flush", perr)
		return false
	}
	if err != nil {
		w.c.Fail("flush-failed", "timer flush: %v", err)
		return false
	}
	return true
}

// image is the content of every database file under data/.
type image map[string][]byte

func (w *world) image() image {
	img := image{}
	filepath.Walk(filepath.Join(w.dir, "data"), func(p string, info os.FileInfo, err error) error {
		if err == nil && !info.IsDir() {
			b, _ := os.ReadFile(p)
			rel, _ := filepath.Rel(w.dir, p)
			img[rel] = b
		}
		return nil
	})
	return img
}

func (img image) clone() image {
	n := image{}
	for k, v := range img {
		n[k] = append([]byte{}, v...)
	}
	return n
}

// abandon kills the world's process state without flushing anything.
func (w *world) abandon() {
	if w.dead {
		return
	}
	w.dead = true
	if w.sess != nil && w.sess.RelationService != nil {
		func() {
			defer func() { recover() }()
			storage.VerifAbandon(w.sess.RelationService)
		}()
	}
	for _, s := range storage.VerifStores() {
		if s.Flusher && !s.Dead {
			func() {
				defer func() { recover() }()
				s.AbandonStore()
			}()
		}
	}
	storage.VerifForgetStores()
}

// destroy abandons and removes the scratch directory.
func (w *world) destroy() {
	w.abandon()
	os.Chdir(worldHome)
	os.RemoveAll(w.dir)
}

// recoverFrom starts a new process life on the given image: fresh directory,
// InitStorage (recovery), a new session on database d. The model carries over.
// It returns nil (after recording a failure) when the database does not start.
func (w *world) recoverFrom(img image, twice bool) *world {
	w.abandon()
	n := &world{c: w.c, opt: w.opt, model: w.model}
	storage.VerifOnWrite(func(e storage.VerifWrite) {
		if n.capture {
			n.writes = append(n.writes, e)
		}
	})
	n.dir = worldScratch()
	for p, b := range img {
		fp := filepath.Join(n.dir, p)
		os.MkdirAll(filepath.Dir(fp), 0755)
		if err := os.WriteFile(fp, b, 0644); err != nil {
			panic(lib.HarnessError{Msg: err.Error()})
		}
	}
	os.Chdir(n.dir)
	os.RemoveAll(w.dir)
	rounds := 1
	if twice {
		rounds = 2
	}
	var first string
	for i := 0; i < rounds; i++ {
		w.c.Logf("RECOVER")
		storage.VerifSetFuel(worldFuel * 4)
		err := guard(storage.InitStorage)
		storage.VerifSetFuel(-1)
		if err != nil {
			n.failErr("recovery-failed", "InitStorage", err)
			n.dead = true
			storage.VerifForgetStores()
			return n
		}
		storage.VerifForgetStores()
		if twice {
			// compare the files after the first and the second recovery through a throw-away session
			d := n.rawDump()
			if i == 0 {
				first = d
			} else if d != first {
				w.c.Fail("recovery-not-idempotent", "second recovery changed the database:\nafter first:  %s\nafter second: %s", first, d)
			}
		}
	}
	n.sess = &Session{}
	if err := n.exec("USE d"); err != nil {
		n.failErr("use-failed", "USE d after recovery", err)
	}
	return n
}

// rawDump opens a throw-away session on the current directory, dumps every
// model table plus the catalog, and abandons the session (nothing is flushed).
func (w *world) rawDump() string {
	t := &world{c: w.c, opt: w.opt, model: w.model, dir: w.dir}
	t.sess = &Session{}
	var sb strings.Builder
	if err := t.exec("USE d"); err != nil {
		return "USE d: " + err.Error()
	}
	for _, name := range append([]string{"sys_schema", "sys_pages"}, t.model.Order...) {
		rows, _, err := t.selectAll(name)
		if err != nil {
			fmt.Fprintf(&sb, "%s: error %v; ", name, err)
			continue
		}
		fmt.Fprintf(&sb, "%s:", name)
		for _, r := range rows {
			if name == "sys_pages" {
				fmt.Fprintf(&sb, "(%d %v)", r.RowID, r.Vals[0]) // root offsets may legitimately differ only if roots moved; names+ids must not
			} else {
				fmt.Fprintf(&sb, "(%d %v)", r.RowID, short(r.Vals))
			}
		}
		sb.WriteString("; ")
	}
	storage.VerifAbandon(t.sess.RelationService)
	storage.VerifForgetStores()
	return sb.String()
}

func parseSelect(q string) (sql.Select, error) {
	st, err := parseSQL(q)
	if err != nil {
		return sql.Select{}, err
	}
	sel, ok := st.(sql.Select)
	if !ok {
		return sql.Select{}, fmt.Errorf("not a select: %s", q)
	}
	return sel, nil
}

func (w *world) selectAll(table string) (rows []*storage.Row, fields []*storage.Field, err error) {
	return w.query("SELECT * FROM " + table)
}

func (w *world) query(q string) (rows []*storage.Row, fields []*storage.Field, err error) {
	sel, perr := parseSelect(q)
	if perr != nil {
		return nil, nil, perr
	}
	storage.VerifSetFuel(worldFuel)
	err = guard(func() error {
		var e error
		rows, fields, e = EvaluateSelect(sel, w.sess.RelationService)
		return e
	})
	storage.VerifSetFuel(-1)
	return
}

// checkAll compares every table and the catalog with the model (C01 oracle).
// learn=true records the ids of rows seen for the first time.
func (w *world) checkAll(when string) bool {
	if w.c.Failed() {
		return false
	}
	allIDs := map[uint32]string{}
	maxSeen := w.model.MaxID
	for _, name := range w.model.Order {
		t := w.model.Tables[name]
		rows, fields, err := w.selectAll(name)
		if err != nil {
			w.failErr("select-failed", when+": SELECT * FROM "+name, err)
			return false
		}
		if len(fields) != len(t.Cols) {
			w.c.Fail("catalog", "%s: table %s has %d columns, declared %d", when, name, len(fields), len(t.Cols))
			return false
		}
		for i, f := range fields {
			if fmt.Sprint(f.Column) != t.Cols[i].Name {
				w.c.Fail("catalog", "%s: table %s column %d is %v, declared %s", when, name, i, f.Column, t.Cols[i].Name)
				return false
			}
		}
		if len(rows) != len(t.Rows) {
			w.c.Fail("contents", "%s: table %s has %d rows, the history implies %d\n have: %s\n want: %s", when, name, len(rows), len(t.Rows), rowsStr(rows), mrowsStr(t.Rows))
			return false
		}
		var prev uint32
		for i, r := range rows {
			if !valsEqual(r.Vals, t.Rows[i].Vals) {
				w.c.Fail("contents", "%s: table %s row %d is %s, the history implies %s\n have: %s\n want: %s", when, name, i, short(r.Vals), short(t.Rows[i].Vals), rowsStr(rows), mrowsStr(t.Rows))
				return false
			}
			if i > 0 && r.RowID <= prev {
				w.c.Fail("row-ids", "%s: table %s row ids not strictly increasing (%d after %d)", when, name, r.RowID, prev)
				return false
			}
			prev = r.RowID
			if other, dup := allIDs[r.RowID]; dup {
				w.c.Fail("row-ids", "%s: row id %d appears in %s and in %s", when, r.RowID, other, name)
				return false
			}
			allIDs[r.RowID] = name
			if t.Rows[i].ID == 0 {
				// a row seen for the first time: its id must never have been used before
				if r.RowID <= w.model.MaxID {
					w.c.Fail("row-id-reused", "%s: new row %s of %s got id %d, but ids up to %d were already handed out", when, short(r.Vals), name, r.RowID, w.model.MaxID)
					return false
				}
				t.Rows[i].ID = r.RowID
			}
			if r.RowID > maxSeen {
				maxSeen = r.RowID
			}
		}
	}
	// the catalog tables draw their row ids from the same database-wide counter
	for _, name := range []string{"sys_pages", "sys_schema"} {
		rows, _, err := w.selectAll(name)
		if err != nil {
			w.failErr("select-failed", when+": SELECT * FROM "+name, err)
			return false
		}
		for _, r := range rows {
			if other, dup := allIDs[r.RowID]; dup {
				w.c.Fail("row-id-reused", "%s: row id %d is used both in %s and in %s", when, r.RowID, other, name)
				return false
			}
			allIDs[r.RowID] = name
			if r.RowID > maxSeen {
				maxSeen = r.RowID
			}
		}
	}
	w.model.MaxID = maxSeen
	return w.checkCatalog(when)
}

// checkAllExcept is checkAll that tolerates the half-created table of a CREATE
// TABLE that was in flight when the process died (it may or may not exist).
func (w *world) checkAllExcept(when, inFlight string) bool {
	w.ignoreTable = inFlight
	defer func() { w.ignoreTable = "" }()
	return w.checkAll(when)
}

func mkdirAll(d string) {
	if err := os.MkdirAll(d, 0755); err != nil {
		panic(lib.HarnessError{Msg: err.Error()})
	}
}

func writeFile(p string, b []byte) {
	if err := os.WriteFile(p, b, 0644); err != nil {
		panic(lib.HarnessError{Msg: err.Error()})
	}
}

// chdir enters the world's directory and removes the previous world's.
func (w *world) chdir(oldDir string) {
	if err := os.Chdir(w.dir); err != nil {
		panic(lib.HarnessError{Msg: err.Error()})
	}
	if oldDir != "" && oldDir != w.dir {
		os.RemoveAll(oldDir)
	}
}

func (w *world) checkCatalog(when string) bool {
	rows, _, err := w.query("SELECT table_name, field_name, field_type FROM sys_schema")
	if err != nil {
		w.failErr("select-failed", when+": SELECT from sys_schema", err)
		return false
	}
	got := map[string][]string{}
	for _, r := range rows {
		tn := fmt.Sprint(r.Vals[0])
		got[tn] = append(got[tn], fmt.Sprintf("%v:%v", r.Vals[1], r.Vals[2]))
	}
	typeNo := map[string]int{"int": storage.TypeInt, "varchar": storage.TypeVarchar, "boolean": storage.TypeBoolean, "bigint": storage.TypeBigInt}
	for _, name := range w.model.Order {
		var want []string
		for _, c := range w.model.Tables[name].Cols {
			want = append(want, fmt.Sprintf("%s:%d", c.Name, typeNo[c.Type]))
		}
		if strings.Join(got[name], ",") != strings.Join(want, ",") {
			w.c.Fail("catalog", "%s: sys_schema lists %v for %s, declared %v", when, got[name], name, want)
			return false
		}
		delete(got, name)
	}
	delete(got, "sys_pages")
	delete(got, "sys_schema")
	if w.ignoreTable != "" {
		delete(got, w.ignoreTable)
	}
	if len(got) != 0 {
		names := []string{}
		for k := range got {
			names = append(names, k)
		}
		sort.Strings(names)
		w.c.Fail("catalog", "%s: sys_schema lists tables that were never (successfully) created: %v", when, names)
		return false
	}
	return true
}

func valsEqual(a, b []any) bool {
	if len(a) != len(b) {
		return false
	}
	for i := range a {
		if a[i] != b[i] {
			return false
		}
	}
	return true
}

func rowsStr(rows []*storage.Row) string {
	var sb strings.Builder
	for _, r := range rows {
		fmt.Fprintf(&sb, "%d%s ", r.RowID, short(r.Vals))
	}
	return sb.String()
}

func mrowsStr(rows []*mRow) string {
	var sb strings.Builder
	for _, r := range rows {
		sb.WriteString(short(r.Vals) + " ")
	}
	return sb.String()
}

// dumpKey is a hash-able rendering of all table contents (values only).
func (w *world) dumpKey() string {
	var sb strings.Builder
	for _, name := range w.model.Order {
		rows, _, err := w.selectAll(name)
		if err != nil {
			fmt.Fprintf(&sb, "%s: error; ", name)
			continue
		}
		fmt.Fprintf(&sb, "%s:", name)
		for _, r := range rows {
			sb.WriteString(short(r.Vals))
		}
		sb.WriteString("; ")
	}
	return sb.String()
}

// ---------------------------------------------------------------- alphabet

// alphabet returns the statements enabled in the current model state. The
// order is fixed (simplest first) so choice indices replay deterministically.
type alphaOpt struct {
	Tables        []string // tables that may be created / used
	Inserts       []int    // row counts for multi-row inserts
	BigInsert     bool
	Updates       bool
	Deletes       bool
	NonePreds     bool     // include statements matching no row
	FewDeletes    bool     // only DELETE upper half / DELETE all (not "= last row")
	LastDelete    bool     // only DELETE of the newest row
	HeldUpdate    bool     // UPDATE of all rows of a table of >= 3 columns to values the middle row partly holds already
	NullInsert    bool     // INSERT naming only the first column (the others are NULL)
	EmptyInsert   bool     // a single-row INSERT whose varchar values are empty strings (not NULL)
	FailingInsert bool     // a single-row INSERT over the size limit (refused; may use up a row id)
	FailingCreate bool     // CREATE TABLE of a table that exists (refused; must not take a page, a row id or an LSN that a later recovery trips over)
	OnlyCreate    []string // tables that may be created but get no other statements (row ids and LSNs consumed without a log record)
}

func (w *world) alphabet(o alphaOpt) []stmt {
	m := w.model
	var out []stmt
	for _, tn := range o.Tables {
		t, ok := m.Tables[tn]
		if !ok {
			out = append(out, mkCreate(tn, worldSchemas[tn]))
			continue
		}
		for _, n := range o.Inserts {
			out = append(out, mkInsert(m, tn, n, false))
		}
		if o.BigInsert {
			out = append(out, mkInsert(m, tn, 1, true))
		}
		if o.NullInsert {
			out = append(out, mkInsertNull(m, tn))
		}
		if o.EmptyInsert {
			if st, ok := mkInsertEmpty(m, tn); ok {
				out = append(out, st)
			}
		}
		if o.FailingInsert {
			if st, ok := mkInsertTooLarge(m, tn); ok {
				out = append(out, st)
			}
			if st, ok := mkUpdateTooLarge(m, tn); ok && len(t.Rows) > 0 {
				out = append(out, st)
			}
		}
		if o.FailingCreate {
			out = append(out, stmt{SQL: fmt.Sprintf("CREATE TABLE %s (z int)", tn), Kind: "create-refused", Table: tn, MustFail: true, apply: func(*mModel, int) {}})
		}
		half := t.Inserted / 2
		if o.Updates && len(t.Rows) > 0 {
			gen := m.Gen
			out = append(out, mkUpdate(m, tn, seqPred{"<=", half}))
			out = append(out, mkUpdate(m, tn, seqPred{"", 0}))
			m.Gen = gen // generation advances only when a statement is actually chosen (see pick)
		}
		if o.HeldUpdate {
			if st, ok := mkUpdateHeld(m, tn); ok {
				out = append(out, st)
			}
		}
		if o.Deletes && o.LastDelete && len(t.Rows) > 0 {
			out = append(out, mkDelete(m, tn, seqPred{"=", t.Inserted}))
		} else if o.Deletes && len(t.Rows) > 0 {
			out = append(out, mkDelete(m, tn, seqPred{">", half}))
			if !o.FewDeletes {
				out = append(out, mkDelete(m, tn, seqPred{"=", t.Inserted}))
			}
			out = append(out, mkDelete(m, tn, seqPred{"", 0}))
		}
		if o.NonePreds && len(t.Rows) > 0 {
			out = append(out, mkDelete(m, tn, seqPred{"none", 0}))
		}
	}
	for _, tn := range o.OnlyCreate {
		if _, ok := m.Tables[tn]; !ok {
			out = append(out, mkCreate(tn, worldSchemas[tn]))
		}
	}
	return out
}

// pickAt returns the i-th enabled statement (same bookkeeping as pick).
func (w *world) pickAt(o alphaOpt, i int) stmt {
	a := w.alphabet(o)
	s := a[i]
	if s.Kind == "update" {
		w.model.Gen += 2
	}
	return s
}

// pick chooses one enabled statement.
func (w *world) pick(o alphaOpt, label string) stmt {
	a := w.alphabet(o)
	i := w.c.Choose(len(a), label)
	s := a[i]
	if s.Kind == "update" {
		w.model.Gen += 2 // both update variants were generated with Gen+1, Gen+2; keep values unique per statement
	}
	return s
}
