package engine

import (
	"encoding/json"
	"fmt"
	"os"
	"path/filepath"
	"strings"

	"verif/lib"
)

// C03 — a crash while a statement is appending its records to the log leaves
// the state before the statement plus a prefix of its row operations, and the
// recovered database keeps working. For every history, the last statement's
// individual write calls on the log file are captured (verif hook before each
// Write/Sync in wal.flush) and every cut point is turned into a crash image:
// data file as it is, log = old log + the first i writes ("cut at last write")
// or + the writes up to the last fsync <= i ("cut at last fsync").

func init() { verifChecks["C03"] = runC03 }

// c03D6Listed: crash points inside the D6 predicate that known_findings.json lists one by one as failing;
// c03ListKeys: emit the keys of failing ones as tags (tools_known_list.py writes the list from them).
var (
	c03D6Listed = map[string]bool{}
	c03ListKeys bool
	c03UseList  bool
)

type c03Cfg struct {
	hist     histCfg
	suffix   int // statements issued after the recovery
	sfxAlpha alphaOpt
}

func runC03(env *lib.Env, rep *lib.Report) {
	d, suffix := 2, 1
	seeds := []string{"empty", "t1x8", "t1x8-upper-deleted", "interleaved"}
	if env.Thorough() {
		d, suffix = 3, 2
		seeds = append(seeds, "t1x8+t2t3", "t1x30", "t1x8+t2t3-crashed", "catalog-split")
	}
	// (the refused INSERT only ever precedes the statement that is cut: it uses up a row id without a log record)
	alpha := alphaOpt{Tables: []string{"t1", "t2"}, Inserts: []int{1, 4, 9}, BigInsert: true, Updates: true, Deletes: true, FailingInsert: true, HeldUpdate: true}
	sfx := alphaOpt{Tables: []string{"t1", "t2"}, Inserts: []int{1, 9}}
	if env.Thorough() {
		sfx = alpha
	}
	var cfgs []c03Cfg
	for _, seed := range seeds {
		a := alpha
		if seed == "t1x8" {
			// (a refused CREATE TABLE before the statement that is cut: whatever it takes - a page, a row id, an LSN - is not in the log)
			a.FailingCreate = true
		}
		cfgs = append(cfgs, c03Cfg{histCfg{Name: "real/" + seed, Seed: seed, Alpha: a, Depth: d, TickChoice: true}, suffix, sfx})
	}
	cfgs = append(cfgs, c03Cfg{histCfg{Name: "leaf3-int3/interleaved", Opt: worldOpt{Leaf: 3, Internal: 3}, Seed: "interleaved", Alpha: alpha, Depth: d, TickChoice: true}, suffix, sfx})
	rep.Bounds["history depth (the last statement is the one being logged)"] = d
	rep.Bounds["suffix statements after recovery"] = suffix
	rep.Bounds["cut points"] = "before every write call of the statement's log append; fsync cuts are a subset of these write-boundary cuts"
	var names []string
	for _, c := range cfgs {
		names = append(names, c.hist.Name)
	}
	rep.Bounds["configs"] = names
	open := env.OpenKnown()
	c03UseList = !env.Thorough()
	c03ListKeys = os.Getenv("VERIF_C03_LISTKEYS") != ""
	c03D6Listed = map[string]bool{}
	if k, ok := open["D6-root-move-not-atomic"]; ok && len(k.Args) > 0 {
		var a struct {
			Inputs []string `json:"failing_inputs"`
		}
		if err := json.Unmarshal(k.Args, &a); err != nil {
			panic(lib.HarnessError{Msg: "known_findings.json: D6 args: " + err.Error()})
		}
		for _, h := range a.Inputs {
			c03D6Listed[h] = true
		}
	}
	rep.Bounds["crash points inside the D6 predicate"] = fmt.Sprintf("%d are listed individually (history + statement + cut) as failing in known_findings.json; any other failing one is a violation (beyond the quick tier's bounds the whole predicate counts)", len(c03D6Listed))
	explore(env, rep, 0, c03Body(cfgs, open))
}

func c03Body(cfgs []c03Cfg, known map[string]lib.KnownEntry) lib.Body {
	return func(c *lib.Ctx) {
		cfg := cfgs[c.Choose(len(cfgs), "config")]
		h := cfg.hist
		c.Logf("config %s", h.Name)
		w := newWorld(c, h.Opt)
		defer func() { w.destroy() }()
		if sw := histSeeds[h.Seed](w); sw == nil || c.Failed() {
			if !c.Failed() {
				c.Fail("seed-failed", "seed %s", h.Seed)
			}
			return
		} else {
			w = sw
		}
		// prefix history (the log writes and fsyncs of these statements are watched too: whatever an acknowledged
		// statement has written to the log and not yet fsynced is lost by a "cut at last fsync" crash)
		w.capture, w.writes = true, nil
		// prefix history
		for step := 0; step < h.Depth-1; step++ {
			s := w.pick(h.Alpha, "stmt")
			if !w.do(s) {
				return
			}
			if h.TickChoice && c.Choose(2, "tick") == 1 && !w.tick() {
				return
			}
		}
		if !w.checkAll("before the statement") { // learns row ids
			return
		}
		// the statement whose log append is interrupted (DML only)
		var dml []stmt
		for _, s := range w.alphabet(h.Alpha) {
			if s.Kind != "create" && !s.MustFail {
				dml = append(dml, s)
			}
		}
		if len(dml) == 0 {
			return
		}
		s := dml[c.Choose(len(dml), "crashed-stmt")]
		if s.Kind == "update" {
			w.model.Gen += 2
		}
		pre := w.model.clone()
		preImg := w.image()
		unsyncedTail := 0 // bytes the acknowledged statements before this one wrote to the log after the last fsync
		for _, e := range w.writes {
			switch {
			case e.Kind == "wal" && e.Path == filepath.Join("data", "d", "wal"):
				unsyncedTail += len(e.Data)
			case e.Kind == "walsync":
				unsyncedTail = 0
			}
		}
		w.capture, w.writes = true, nil
		c.Logf("%s   <- crash inside this statement's log append", clip(s.SQL, 140))
		err := w.exec(s.SQL)
		w.capture = false
		if err != nil {
			w.failErr("statement-failed", s.SQL, err)
			return
		}
		walPath := filepath.Join("data", "d", "wal")
		var walWrites [][]byte
		var syncAfter []int // syncAfter[j] = number of writes covered by the j-th sync
		pageWrites := 0
		rootMoveAt := -1 // index of the first write of a catalog (root move) record, if any
		for _, e := range w.writes {
			switch e.Kind {
			case "wal":
				if e.Path == walPath {
					walWrites = append(walWrites, e.Data)
				}
			case "walsync":
				syncAfter = append(syncAfter, len(walWrites))
			case "page", "header":
				pageWrites++
			}
		}
		if pageWrites > 0 {
			// a page reached the data file while the statement was still logging: the image below would be wrong
			c.Tag("flush-inside-statement")
		}
		// records are (length, body) pairs; find a root-move record: an OpUpdate body in an INSERT batch
		if s.Kind == "insert" {
			for i := 1; i < len(walWrites); i += 2 {
				if len(walWrites[i]) > 0 && walWrites[i][0] == 1 { // OpUpdate
					rootMoveAt = i - 1
					break
				}
			}
		}
		// Every "cut at last fsync" image is the log up to some earlier write
		// boundary, i.e. one of the "cut at last write" images: enumerating all
		// write prefixes covers both cut modes. fsyncCuts records which prefixes
		// are also reachable as fsync cuts (evidence only).
		cut := c.Choose(len(walWrites)+1, "cut")
		eff := cut
		for _, sa := range syncAfter {
			if sa == cut {
				c.Tag("cut-is-also-an-fsync-cut")
			}
		}
		c.Logf("CRASH after %d of %d log writes", cut, len(walWrites))
		img := preImg.clone()
		if cut == 0 && unsyncedTail > 0 && unsyncedTail <= len(img[walPath]) && c.Choose(2, "cut-mode-before-first-write") == 1 {
			// cut at the last fsync, before the statement's first log write: what earlier statements left unsynced is gone
			c.Logf("the log is cut at the last fsync: %d bytes written by acknowledged statements were never fsynced and are lost", unsyncedTail)
			c.Tag("fsync-cut-loses-acknowledged-bytes")
			img[walPath] = img[walPath][:len(img[walPath])-unsyncedTail]
		}
		for i := 0; i < eff; i++ {
			img[walPath] = append(img[walPath], walWrites[i]...)
		}
		if cut > 0 && cut < len(walWrites) {
			c.NonTrivial()
			c.Tag("cut-inside")
		}
		if eff%2 == 1 {
			c.Tag("dangling-length")
		}
		if rootMoveAt >= 0 {
			c.Tag("root-move-in-batch")
		}
		// known-finding predicates are over the input (crash point), not the outcome
		knownID := ""
		if _, ok := known["D6-root-move-not-atomic"]; ok && rootMoveAt >= 0 && eff >= rootMoveAt && eff < rootMoveAt+2 {
			// the insert that split the root is fully logged, its root-move record is not
			knownID = "D6-root-move-not-atomic"
		}
		if _, ok := known["D5-incomplete-tail-record"]; ok && eff%2 == 1 {
			knownID = "D5-incomplete-tail-record"
		}
		// Within the D6 predicate the recovered state is sometimes still a row prefix (the rows that stay
		// visible happen to be the first ones). In the quick tier's bounds the failing crash points are listed
		// one by one in known_findings.json (hash of history + statement + cut); any other one must hold.
		defer func() {
			if knownID != "" {
				// (the key covers the whole execution: history, statement, cut and what was done after recovery)
				d6Key := ""
				if knownID == "D6-root-move-not-atomic" && c03UseList {
					d6Key = fmt.Sprintf("%016x", lib.HashString(strings.Join(c.Trace(), "\n")))
				}
				switch {
				case c.Failed() && d6Key != "" && c03ListKeys:
					c.Tag("d6-failing-key:" + d6Key)
					c.SetKnown(knownID)
				case c.Failed() && d6Key != "" && !c03D6Listed[d6Key]:
					c.Logf("this crash point is inside the D6 predicate but is not one of the %d listed failing inputs (key %s)", len(c03D6Listed), d6Key)
				case c.Failed():
					c.SetKnown(knownID)
				default:
					c.Tag("known-not-violating:" + knownID)
				}
			}
		}()
		w.model = pre // recoverFrom carries w.model over
		w = w.recoverFrom(img, false)
		if c.Failed() {
			return
		}
		// which prefix of the statement's row operations is present?
		got := w.dumpKey()
		found := -1
		for k := 0; k <= s.N; k++ {
			m := pre.clone()
			s.apply(m, k)
			tmp := &world{c: c, model: m}
			if tmp.modelKey() == got {
				found = k
				w.model = m
				break
			}
		}
		if found < 0 {
			m := pre.clone()
			s.apply(m, -1)
			c.Fail("not-a-row-prefix", "after recovery the tables are neither the state before the statement nor that state plus a prefix of its %d row operations\n have: %s\n before: %s\n after:  %s", s.N, got, (&world{model: pre}).modelKey(), (&world{model: m}).modelKey())
			return
		}
		c.Logf("recovered state = before + %d of %d row operations", found, s.N)
		c.Observe(fmt.Sprintf("%d/%d", found, s.N))
		if !w.checkAll("after recovery") {
			return
		}
		// the recovered database keeps working
		for i := 0; i < cfg.suffix; i++ {
			sfx := w.pick(cfg.sfxAlpha, "suffix-stmt")
			if !w.do(sfx) {
				return
			}
			if !w.checkAll(fmt.Sprintf("after suffix statement %d", i+1)) {
				return
			}
		}
		// and survives another crash
		w = w.recoverFrom(w.image(), false)
		if c.Failed() {
			return
		}
		w.checkAll("after suffix + second crash")
	}
}

// modelKey renders the model like dumpKey renders the database.
func (w *world) modelKey() string {
	s := ""
	for _, name := range w.model.Order {
		s += name + ":"
		for _, r := range w.model.Tables[name].Rows {
			s += short(r.Vals)
		}
		s += "; "
	}
	return s
}
