package engine

import (
	"testing"

	"verif/lib"
)

// TestVerif is the worker entry point for every check whose harness lives in
// package engine. It does nothing unless the driver set VERIF_CHECK.
func TestVerif(t *testing.T) {
	env := lib.GetEnv()
	if env.Check == "" {
		t.Skip("not run by vcheck")
	}
	lib.Silence()
	rep := lib.NewReport(env)
	lib.Main(env, rep, func() {
		f, ok := verifChecks[env.Check]
		if !ok {
			panic(lib.HarnessError{Msg: "package engine has no harness for " + env.Check})
		}
		if env.Thorough() && env.Replay == "" && twoPhase[env.Check] {
			// iterate the bound: the quick tier's bounds are explored completely
			// first, so that a deadline inside the deeper exploration still
			// leaves a stated, fully covered bound
			q := *env
			q.Tier = "quick"
			f(&q, rep)
			phase1 := rep.Bounds
			n1 := rep.Evaluations
			rep.Bounds = map[string]any{}
			complete1 := rep.Exhaustive
			f(env, rep)
			rep.Bounds["phase 1 (bounds of the quick tier, explored first)"] = map[string]any{"bounds": phase1, "evaluations": n1, "completed": complete1}
			if !rep.Exhaustive && complete1 {
				rep.Notes = append(rep.Notes, "the deadline fell inside phase 2; phase 1 (the quick tier's bounds) was covered completely")
			}
			return
		}
		f(env, rep)
	})
}

var verifChecks = map[string]func(*lib.Env, *lib.Report){}

// twoPhase: explorer-based checks whose thorough tier may meet its deadline.
var twoPhase = map[string]bool{"C01": true, "C02": true, "C03": true, "C04": true, "C11": true, "C13": true, "C14": true, "C16": true, "C17": true}

// explore runs body under the DFS explorer with the standard sharding and
// reporting, or replays one execution when the driver asked for a replay.
func explore(env *lib.Env, rep *lib.Report, bound int, body lib.Body) {
	if env.Replay != "" {
		rf := lib.LoadReplay(env.Replay)
		x := lib.RunOnce(body, lib.ParseChoices(rf.Choices))
		for _, l := range x.Trace {
			lib.Say("  %s", l)
		}
		if x.Fail != nil {
			lib.Say("replay: FAIL kind=%s %s", x.Fail.Kind, x.Fail.Detail)
			rep.AddFailure(x.Fail)
		} else {
			lib.Say("replay: execution passes")
		}
		rep.Evaluations = 1
		return
	}
	failuresBefore := len(rep.Failures)
	ex := lib.Explore(body, lib.Options{Bound: bound, Shard: env.Shard, NShards: env.NShards, SplitDepth: 2,
		Journal: env.Journal, Deadline: env.Expired, OnExec: rep.OnExec})
	rep.ChoicePts += ex.Points
	if !ex.Exhaustive {
		rep.Exhaustive = false
		rep.Notes = append(rep.Notes, "soft deadline reached before the exploration finished; the bound was not completed")
	}
	// determinism self-test: re-run the first failure (if any) twice
	for _, f := range rep.Failures[failuresBefore:] {
		for i := 0; i < 2; i++ {
			x := lib.RunOnce(body, f.Choices)
			if x.Fail == nil || x.Fail.Kind != f.Kind {
				panic(lib.HarnessError{Msg: "a failing execution did not fail again when replayed (nondeterminism): " + lib.ChoicesString(f.Choices)})
			}
		}
		break
	}
}
