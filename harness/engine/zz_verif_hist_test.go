package engine

// Generic bounded history exploration used by C01, C02, C11, C16: every
// sequence of events (statements from the enabled alphabet, optional timer
// ticks, clean restarts, crashes) up to a depth, from each seeded initial
// state and capacity configuration, with the reference-model oracle evaluated
// once per distinct history prefix (Ctx.Fresh).

import (
	"fmt"
	"path/filepath"

	"github.com/mk6i/mkdb/storage"
	"verif/lib"
)

type histCfg struct {
	Name           string
	Opt            worldOpt
	Seed           string
	Alpha          alphaOpt
	Depth          int
	TickChoice     bool // after every statement: choose "no tick" / "tick"
	Reopen         bool // event: clean shutdown (Session.Close) + restart
	Reselect       bool // event: USE d again (the store is closed and opened again; no recovery runs)
	Crash          bool // event: crash + recovery (cost 1 against the crash bound)
	FinalCrash     bool // every fresh history ends with crash + double recovery + check
	FinalReopen    bool // every fresh history ends with clean shutdown + restart + check (pages re-read from disk)
	Walk           bool // run the tree walker after every fresh event
	OnlyWalk       bool // judge only the walker (and crashes/hangs of tree code); other oracles belong to other properties
	CrashInCreate  bool // event: CREATE TABLE t3, crash inside its final flush with every page written and the header not (cost 1 against the crash bound); a table that is there in full afterwards is adopted
	CacheAfterSeed int  // > 0: once the seed is built and flushed, the page cache is replaced by an empty one of this capacity and every statement is followed by a timer flush
	TickInStmt     bool // C04: the timer may fire while one more DML statement is between its page changes and its log append
	AltSchemas     bool // the tables t1, t2, t3 are declared with other columns than in every other config (same names)
}

// altSchemas: the same table names as worldSchemas with different column lists
// (nothing a process learnt about a table of one database may be applied to
// the table of the same name in another one).
var altSchemas = map[string][]mCol{
	"t1": {{"a", "bigint"}, {"d", "boolean"}, {"c", "varchar"}},
	"t2": {{"b", "int"}, {"c", "varchar"}},
	"t3": {{"a", "int"}, {"c", "varchar"}, {"e", "int"}},
}

// seeds are scripted set-ups producing interesting initial states.
var histSeeds = map[string]func(w *world) *world{
	"empty": func(w *world) *world { return w },
	// t1 one row short of a root split, next to a table whose 2720 long rows (340 statements) have grown the log
	// beyond one megabyte: whatever an engine does about a log of that size happens during the statements that follow
	"t1x8+long-log": func(w *world) *world {
		saved := worldFuel
		worldFuel = 4000000
		defer func() { worldFuel = saved }()
		// (the statements that build the seed run without the scheduler; their statement windows are watched all the same)
		w.window = storage.VerifNewWindow()
		defer func() { w.window.Remove(); w.window = nil }()
		ok := w.do(mkCreate("t1", worldSchemas["t1"])) && w.do(mkInsert(w.model, "t1", 8, false)) && w.do(mkCreate("t2", worldSchemas["t2"]))
		for i := 0; ok && i < 340; i++ {
			ok = w.do(mkInsert(w.model, "t2", 8, true))
			if ok && i%40 == 39 {
				ok = w.tick()
			}
			ok = ok && !w.c.Failed()
		}
		return okw(w, ok)
	},
	// one table, one row short of a root split
	"t1x8": func(w *world) *world {
		return okw(w, w.do(mkCreate("t1", worldSchemas["t1"])) && w.do(mkInsert(w.model, "t1", 8, false)))
	},
	// same, flushed, then two tables created afterwards (CREATE TABLE consumes LSNs without logging)
	"t1x8+t2t3": func(w *world) *world {
		return okw(w, w.do(mkCreate("t1", worldSchemas["t1"])) && w.do(mkInsert(w.model, "t1", 8, false)) &&
			w.do(mkCreate("t2", worldSchemas["t2"])) && w.do(mkCreate("t3", worldSchemas["t3"])))
	},
	// tombstones in the upper half of a full leaf
	"t1x8-upper-deleted": func(w *world) *world {
		return okw(w, w.do(mkCreate("t1", worldSchemas["t1"])) && w.do(mkInsert(w.model, "t1", 8, false)) &&
			w.do(mkDelete(w.model, "t1", seqPred{">", 4})))
	},
	// two tables whose leaves interleave in the file, both with internal roots
	"interleaved": func(w *world) *world {
		ok := w.do(mkCreate("t1", worldSchemas["t1"])) && w.do(mkCreate("t2", worldSchemas["t2"]))
		for i := 0; i < 3 && ok; i++ {
			ok = w.do(mkInsert(w.model, "t1", 5, false)) && w.do(mkInsert(w.model, "t2", 5, false))
		}
		return okw(w, ok)
	},
	// a table with an internal root and several leaves, some rows updated and deleted, unflushed
	"t1x30": func(w *world) *world {
		return okw(w, w.do(mkCreate("t1", worldSchemas["t1"])) && w.do(mkInsert(w.model, "t1", 30, false)) &&
			w.do(mkUpdate(w.model, "t1", seqPred{"<=", 10})) && w.do(mkDelete(w.model, "t1", seqPred{"=", 17})))
	},
	// one table whose root has split and which received more rows afterwards, next to a small table with a leaf root
	"t1x12+t2x1": func(w *world) *world {
		return okw(w, w.do(mkCreate("t1", worldSchemas["t1"])) && w.do(mkCreate("t2", worldSchemas["t2"])) &&
			w.do(mkInsert(w.model, "t1", 12, false)) && w.do(mkInsert(w.model, "t2", 1, false)))
	},
	// rows with NULLs and a row near the size limit next to ordinary ones, partly updated
	"t1-nulls-big": func(w *world) *world {
		return okw(w, w.do(mkCreate("t1", worldSchemas["t1"])) && w.do(mkInsert(w.model, "t1", 3, false)) && w.do(mkInsertNull(w.model, "t1")) &&
			w.do(mkInsert(w.model, "t1", 1, true)) && w.do(mkInsert(w.model, "t1", 2, false)) && w.do(mkUpdate(w.model, "t1", seqPred{"<=", 4})))
	},
	// a database that already went through one crash/recover cycle with the log only
	"t1x8-crashed": func(w *world) *world {
		if !(w.do(mkCreate("t1", worldSchemas["t1"])) && w.do(mkInsert(w.model, "t1", 8, false))) {
			return nil
		}
		return okw(w.recoverFrom(w.image(), false), !w.c.Failed())
	},
	// 8 rows, two more tables, crash+recover: the situation in which recovery can lower nextLSN
	"t1x8+t2t3-crashed": func(w *world) *world {
		if !(w.do(mkCreate("t1", worldSchemas["t1"])) && w.do(mkInsert(w.model, "t1", 8, false)) &&
			w.do(mkCreate("t2", worldSchemas["t2"])) && w.do(mkCreate("t3", worldSchemas["t3"]))) {
			return nil
		}
		return okw(w.recoverFrom(w.image(), false), !w.c.Failed())
	},
	// many tables: the catalog trees themselves have split (sys_pages at 9 rows, sys_schema at 9 columns)
	// six user tables: the next CREATE TABLE splits the root of the page table
	// two tables whose names differ in letter case only, both one row short of their first root change
	"case-twins": func(w *world) *world {
		return okw(w, w.do(mkCreate("T1", worldSchemas["T1"])) && w.do(mkCreate("t1", worldSchemas["t1"])) &&
			w.do(mkInsert(w.model, "T1", 8, false)) && w.do(mkInsert(w.model, "t1", 8, false)))
	},
	"six-tables": func(w *world) *world {
		for i := 0; i < 5; i++ {
			if !w.do(mkCreate(fmt.Sprintf("c%d", i), []mCol{{"a", "int"}, {"c", "varchar"}})) {
				return nil
			}
		}
		return okw(w, w.do(mkCreate("t1", worldSchemas["t1"])) && w.do(mkInsert(w.model, "t1", 2, false)))
	},
	"catalog-split": func(w *world) *world {
		for i := 0; i < 8; i++ {
			name := fmt.Sprintf("c%d", i)
			if !w.do(mkCreate(name, []mCol{{"a", "int"}, {"c", "varchar"}})) {
				return nil
			}
		}
		return okw(w, w.do(mkInsert(w.model, "c0", 3, false)) && w.do(mkInsert(w.model, "c7", 3, false)))
	},
}

// singleRowSeed registers (once) and names the seed "t1 with n rows, inserted one statement at a time".
func singleRowSeed(n int) string {
	name := fmt.Sprintf("t1x%d-single-rows", n)
	if _, ok := histSeeds[name]; !ok {
		histSeeds[name] = func(w *world) *world {
			ok := w.do(mkCreate("t1", worldSchemas["t1"]))
			for i := 0; ok && i < n; i++ {
				ok = w.do(mkInsert(w.model, "t1", 1, false))
			}
			return okw(w, ok)
		}
	}
	return name
}

func okw(w *world, ok bool) *world {
	if !ok {
		return nil
	}
	return w
}

func (w *world) nextFree() uint64 {
	_, _, nf, _ := w.store().Header()
	return nf
}

// histBody returns the explorer body enumerating cfgs[choice] x histories.
func histBody(cfgs []histCfg, crashBound int) lib.Body {
	return func(c *lib.Ctx) {
		ci := c.Choose(len(cfgs), "config")
		cfg := cfgs[ci]
		c.Logf("config %s: seed=%s caps(leaf,internal,cache)=%d,%d,%d depth=%d", cfg.Name, cfg.Seed, cfg.Opt.Leaf, cfg.Opt.Internal, cfg.Opt.Cache, cfg.Depth)
		if cfg.AltSchemas {
			saved := worldSchemas
			worldSchemas = altSchemas
			defer func() { worldSchemas = saved }()
		}
		w := newWorld(c, cfg.Opt)
		defer func() { w.destroy() }()
		if cfg.OnlyWalk {
			defer func() {
				switch k := c.FailKind(); k {
				case "", "tree-shape", "walker", "panic", "hang":
				default:
					// contents / recovery oracles are decided by C01-C04, not here
					c.ClearFail()
					c.Tag("ended-early:" + k)
				}
			}()
		}
		if sw := histSeeds[cfg.Seed](w); sw == nil || c.Failed() {
			if !c.Failed() {
				c.Fail("seed-failed", "seed %s could not be built", cfg.Seed)
			}
			return
		} else {
			w = sw
		}
		if !w.checkAll("after seed " + cfg.Seed) {
			return
		}
		if c.Fresh() && cfg.Walk && !w.walk("after seed") {
			return
		}
		if cfg.CacheAfterSeed > 0 {
			if !w.tick() {
				return
			}
			storage.VerifReplaceCache(w.sess.RelationService, cfg.CacheAfterSeed)
			storage.VerifSetCacheCap(cfg.CacheAfterSeed)
			w.opt.Cache, w.opt.AutoTick, w.opt.TolerateCacheFull = cfg.CacheAfterSeed, true, true
		}
		crashes := 0
		for step := 0; step < cfg.Depth; step++ {
			stmts := w.alphabet(cfg.Alpha)
			n := len(stmts)
			var extra []string
			if cfg.Reopen {
				extra = append(extra, "reopen")
			}
			if cfg.Reselect {
				extra = append(extra, "reselect")
			}
			if cfg.Crash && crashes < crashBound {
				extra = append(extra, "crash")
			}
			if _, has := w.model.Tables["t3"]; cfg.CrashInCreate && !has && crashes < crashBound {
				extra = append(extra, "crash-in-create")
			}
			var cost []int
			if len(extra) > 0 {
				cost = make([]int, n+len(extra))
				for i, e := range extra {
					if e == "crash" || e == "crash-in-create" {
						cost[n+i] = 1
					}
				}
			}
			ev := c.ChooseCost(n+len(extra), "event", cost)
			if ev < n {
				s := stmts[ev]
				if s.Kind == "update" {
					w.model.Gen += 2
				}
				before := w.nextFree()
				if !w.do(s) {
					return
				}
				if s.Kind != "create" && w.nextFree() > before {
					c.NonTrivial()
					c.Tag("split")
				}
				if s.Kind == "create" {
					c.Tag("create")
				}
				if cfg.TickChoice && c.Choose(2, "tick") == 1 {
					if !w.tick() {
						return
					}
					c.Tag("tick")
				}
			} else {
				switch extra[ev-n] {
				case "reopen":
					c.Logf("CLOSE + RESTART")
					rs := w.sess.RelationService
					if err := guard(func() error { return w.sess.Close() }); err != nil {
						w.failErr("close-failed", "Session.Close", err)
						return
					}
					storage.VerifMarkClosed(rs)
					w = w.recoverFrom(w.image(), false)
					c.Tag("reopen")
				case "reselect":
					c.Logf("USE d (close + open, no recovery)")
					if err := w.exec("USE d"); err != nil {
						w.failErr("use-failed", "USE d", err)
						return
					}
					c.Tag("reselect")
				case "crash-in-create":
					// CREATE TABLE t3 dies inside its final flush: every page of the flush is on disk, the header is not
					crashes++
					tbl := filepath.Join("data", "d", "tbl")
					base := w.image()
					cs := mkCreate("t3", worldSchemas["t3"])
					c.Logf("%s   <- CRASH inside this statement's flush: pages written, header not", cs.SQL)
					w.capture, w.writes = true, nil
					err := w.exec(cs.SQL)
					w.capture = false
					if err != nil {
						w.failErr("statement-failed", cs.SQL, err)
						return
					}
					segs := segments(w.writes, tbl)
					if len(segs) == 0 {
						c.Tag("crash-in-create:no-flush-captured")
						return
					}
					last := len(segs) - 1
					img := applyTorn(base, tbl, segs, tornChoice{seg: last, subset: uint(1)<<uint(len(segs[last].pages)) - 1, npages: len(segs[last].pages)})
					img[filepath.Join("data", "d", "wal")] = base[filepath.Join("data", "d", "wal")]
					w = w.recoverFrom(img, false)
					c.Tag("crash-in-create")
					c.NonTrivial()
					if c.Failed() {
						return
					}
					if w.tableComplete("t3") {
						c.Logf("table t3 of the interrupted CREATE TABLE exists completely: adopted")
						cs.apply(w.model, -1)
						c.Tag("crash-in-create:adopted")
					} else {
						// (whether a half-made table may stay behind is C04's question; this history ends here)
						c.Tag("crash-in-create:table-not-complete")
						return
					}
				case "crash":
					c.Logf("CRASH")
					crashes++
					w = w.recoverFrom(w.image(), false)
					c.Tag("crash")
					c.NonTrivial()
				}
				if c.Failed() {
					return
				}
			}
			// the model oracle also learns row ids, so it runs after every event of
			// every execution; the (pure) walker only on prefixes not seen before
			if cfg.OnlyWalk {
				// the walker is the property under test: it runs first, so that a broken tree is
				// reported as such and not ended early by the contents oracle of another property
				if c.Fresh() && !w.walk(fmt.Sprintf("after event %d", step+1)) {
					return
				}
				if c.Fresh() && !w.checkAll(fmt.Sprintf("after event %d", step+1)) {
					return
				}
			} else {
				if !w.checkAll(fmt.Sprintf("after event %d", step+1)) {
					return
				}
				if c.Fresh() && cfg.Walk && !w.walk(fmt.Sprintf("after event %d", step+1)) {
					return
				}
			}
		}
		if cfg.FinalReopen && c.Fresh() {
			c.Logf("CLOSE + RESTART (end of history)")
			rs := w.sess.RelationService
			if err := guard(func() error { return w.sess.Close() }); err != nil {
				w.failErr("close-failed", "Session.Close", err)
				return
			}
			storage.VerifMarkClosed(rs)
			w = w.recoverFrom(w.image(), false)
			if c.Failed() {
				return
			}
			c.Tag("final-reopen")
			if !w.checkAll("after clean shutdown + restart") {
				return
			}
			// and the reopened database keeps working: one more row into every table must land at the end
			// (a stale root pointer still scans right through the sibling links, but inserts go astray)
			for _, tn := range append([]string{}, w.model.Order...) {
				if !w.do(mkInsert(w.model, tn, 1, false)) {
					return
				}
			}
			if !w.checkAll("after clean shutdown + restart + one more row per table") {
				return
			}
		}
		if cfg.FinalCrash && c.Fresh() {
			c.Logf("CRASH (end of history)")
			w = w.recoverFrom(w.image(), true)
			if c.Failed() {
				return
			}
			c.Tag("final-crash")
			if !w.checkAll("after final crash + recovery") {
				return
			}
			if cfg.Walk && !w.walk("after final crash") {
				return
			}
		}
		if c.Fresh() {
			c.Observe(w.dumpKey())
		}
	}
}

// walk runs the B+ tree walker on the current database.
func (w *world) walk(when string) bool {
	var problems []string
	var st storage.VerifTreeStats
	storage.VerifSetFuel(worldFuel * 4)
	err := guard(func() error { problems, st = storage.VerifWalk(w.sess.RelationService); return nil })
	storage.VerifSetFuel(-1)
	if err != nil {
		w.failErr("walker", when, err)
		return false
	}
	if len(problems) > 0 {
		w.c.Fail("tree-shape", "%s: %v", when, problems)
		return false
	}
	if st.MaxDepth >= 2 {
		w.c.NonTrivial()
	}
	if st.MaxDepth >= 3 {
		w.c.Tag("three-levels")
	}
	if st.MaxDepth >= 4 {
		w.c.Tag("four-levels")
	}
	w.c.Class(st.Shape)
	return true
}
