package engine

import (
	"fmt"

	"verif/lib"
)

// C05 — single-table SELECT returns what its clauses mean. For every table
// content of a bounded family, every query of a bounded product of clauses is
// rendered to SQL text, executed through parseSQL -> EvaluateSelect on a real
// database and compared with the reference evaluator.

func init() { verifChecks["C05"] = runC05 }

var c05Cols = []mCol{{"a", "int"}, {"b", "bigint"}, {"c", "varchar"}, {"d", "boolean"}}

func c05Contents(maxRows int) [][][]any {
	var universe [][]any
	for _, a := range []int64{1, 2} {
		for _, b := range []int64{1, 1 << 40} {
			for _, c := range []string{"x", "y"} {
				for _, d := range []bool{true, false} {
					universe = append(universe, []any{a, b, c, d})
				}
			}
		}
	}
	out := [][][]any{{}}
	var rec func(start int, cur [][]any)
	rec = func(start int, cur [][]any) {
		if len(cur) > 0 {
			out = append(out, append([][]any{}, cur...))
		}
		if len(cur) == maxRows {
			return
		}
		for i := start; i < len(universe); i++ {
			rec(i, append(cur, universe[i]))
		}
	}
	rec(0, nil)
	// two fixed six-row tables with ties in every column
	out = append(out,
		[][]any{{int64(2), int64(1), "y", true}, {int64(1), int64(1 << 40), "x", false}, {int64(2), int64(1), "x", true}, {int64(1), int64(1), "y", false}, {int64(2), int64(1 << 40), "y", true}, {int64(1), int64(1), "x", true}},
		[][]any{{int64(3), int64(5), "b", false}, {int64(3), int64(5), "a", true}, {int64(1), int64(7), "b", true}, {int64(3), int64(6), "c", false}, {int64(1), int64(5), "a", false}, {int64(2), int64(5), "b", true}},
		// negative and extreme numbers, strings of different length and case (byte order): "" < "B" < "a" < "aB" < "ab" < "b"
		[][]any{{int64(-5), int64(-(1 << 40)), "", true}, {int64(0), int64(1 << 62), "a", false}, {int64(7), int64(-1), "ab", true}, {int64(-5), int64(5), "B", false},
			{int64(2147483647), int64(0), "b", true}, {int64(-2147483648), int64(9223372036854775807), "aB", false}, {int64(1), int64(1), "x", true}},
		// strings that spell keywords, operators and punctuation
		[][]any{{int64(1), int64(1), "or", true}, {int64(2), int64(2), "limit", false}, {int64(3), int64(3), "=", true}, {int64(4), int64(4), "true", false}, {int64(5), int64(5), "select", true}, {int64(6), int64(6), ",", false}})
	// sixteen rows with ties on every column but b (sorting by several keys must be right beyond a dozen rows too)
	var wide [][]any
	for i := 0; i < 16; i++ {
		wide = append(wide, []any{int64(1 + i%2), int64(100 - i*3), []string{"x", "y", "z"}[i%3], i%4 < 2})
	}
	out = append(out, wide)
	return out
}

type c05Queries struct {
	conds  []*qCond
	lists  [][]qItem
	lists3 [][]qItem
	sorts  [][]qSort
	limits [][3]int // limit, offset, limitFirst(0/1)
}

func c05Atoms(full bool) []qAtom {
	ops := []string{"=", "!=", "<", "<=", ">", ">="}
	var out []qAtom
	ints := []qExpr{qc("", "a"), qc("", "b"), ql(int64(1)), ql(int64(2)), ql(int64(1 << 40))}
	strs := []qExpr{qc("", "c"), ql("x"), ql("y")}
	if full {
		strs = append(strs, ql("or"), ql("limit"), ql("TRUE"), ql("="))
	}
	bools := []qExpr{qc("", "d"), ql(true), ql(false)}
	for _, l := range ints {
		for _, r := range ints {
			if !full && !l.isCol && !r.isCol {
				continue
			}
			for _, o := range ops {
				out = append(out, qAtom{l, r, o})
			}
		}
	}
	for _, l := range strs {
		for _, r := range strs {
			if !full && !l.isCol && !r.isCol {
				continue
			}
			for _, o := range ops {
				out = append(out, qAtom{l, r, o})
			}
		}
	}
	for _, l := range bools {
		for _, r := range bools {
			for _, o := range []string{"=", "!="} {
				out = append(out, qAtom{l, r, o})
			}
		}
	}
	return out
}

func buildC05Queries(thorough bool) *c05Queries {
	q := &c05Queries{}
	all := c05Atoms(true)
	// 1 atom: all atoms
	for _, a := range all {
		q.conds = append(q.conds, &qCond{atoms: []qAtom{a}})
	}
	// 2 and 3 atoms: full product over a representative atom set, every AND/OR pattern
	rep := []qAtom{
		{qc("", "a"), ql(int64(1)), "="}, {qc("", "a"), ql(int64(1)), ">"}, {qc("", "b"), ql(int64(1 << 40)), "<"}, {qc("", "a"), qc("", "b"), "="},
		{qc("", "c"), ql("x"), "!="}, {qc("", "c"), ql("y"), ">="}, {qc("", "d"), ql(true), "="}, {ql(int64(2)), qc("", "a"), "<="},
	}
	for _, a := range rep {
		for _, b := range rep {
			for _, or1 := range []bool{false, true} {
				q.conds = append(q.conds, &qCond{atoms: []qAtom{a, b}, ors: []bool{or1}})
				for _, c := range rep {
					for _, or2 := range []bool{false, true} {
						q.conds = append(q.conds, &qCond{atoms: []qAtom{a, b, c}, ors: []bool{or1, or2}})
					}
				}
			}
		}
	}
	if thorough {
		small := rep[:5]
		for _, a := range small {
			for _, b := range small {
				for _, c := range small {
					for _, d := range small {
						for pat := 0; pat < 8; pat++ {
							q.conds = append(q.conds, &qCond{atoms: []qAtom{a, b, c, d}, ors: []bool{pat&1 == 1, pat&2 == 2, pat&4 == 4}})
						}
					}
				}
			}
		}
	}
	// select lists: *, and every ordered list of <= 2 items
	items := []qItem{
		{kind: "col", col: qRef{"", "a"}}, {kind: "col", col: qRef{"", "b"}}, {kind: "col", col: qRef{"", "c"}}, {kind: "col", col: qRef{"", "d"}},
		{kind: "col", col: qRef{"", "a"}, alias: "x"}, {kind: "col", col: qRef{"", "c"}, alias: "y"}, {kind: "col", col: qRef{"t", "b"}},
		{kind: "cond", cond: &qCond{atoms: []qAtom{{qc("", "a"), ql(int64(1)), "="}}}},
		{kind: "cond", cond: &qCond{atoms: []qAtom{{qc("", "c"), ql("x"), "!="}, {qc("", "a"), qc("", "b"), "<"}}, ors: []bool{true}}, alias: "z"},
		{kind: "lit", lit: int64(7)}, {kind: "lit", lit: "s"},
	}
	q.lists = append(q.lists, []qItem{{kind: "star"}})
	for _, a := range items {
		q.lists = append(q.lists, []qItem{a})
		for _, b := range items {
			q.lists = append(q.lists, []qItem{a, b})
		}
	}
	// longer lists of columns only: every ordered list of 3 column items (plain, aliased, qualified) and every
	// ordered list of 4 plain columns - repeated columns followed by other columns included
	for _, a := range items[:7] {
		for _, b := range items[:7] {
			for _, c := range items[:7] {
				q.lists3 = append(q.lists3, []qItem{a, b, c})
			}
		}
	}
	for _, a := range items[:4] {
		for _, b := range items[:4] {
			for _, c := range items[:4] {
				for _, d := range items[:4] {
					q.lists3 = append(q.lists3, []qItem{a, b, c, d})
				}
			}
		}
	}
	// ORDER BY lists (over the columns of SELECT *): <= 2 keys x direction
	keys := []qRef{{"", "a"}, {"", "b"}, {"", "c"}, {"", "d"}, {"t", "a"}}
	dirs := []string{"", "ASC", "DESC"}
	q.sorts = append(q.sorts, nil)
	for _, k1 := range keys {
		for _, d1 := range dirs {
			q.sorts = append(q.sorts, []qSort{{k1, d1}})
			for _, k2 := range keys[:4] {
				if k2 == k1 {
					continue
				}
				for _, d2 := range dirs {
					q.sorts = append(q.sorts, []qSort{{k1, d1}, {k2, d2}})
				}
			}
		}
	}
	// LIMIT / OFFSET
	for _, l := range []int{-1, 0, 1, 2, 5} {
		for _, o := range []int{-1, 0, 1, 2, 5} {
			q.limits = append(q.limits, [3]int{l, o, 1})
			if l >= 0 && o >= 0 {
				q.limits = append(q.limits, [3]int{l, o, 0})
			}
		}
	}
	return q
}

func runC05(env *lib.Env, rep *lib.Report) {
	lib.SilenceStderr()
	defer lib.RestoreStderr()
	maxRows := 3
	if env.Thorough() {
		maxRows = 4
	}
	contents := c05Contents(maxRows)
	qs := buildC05Queries(env.Thorough())
	rep.Bounds["table contents"] = fmt.Sprintf("%d: every multiset of <= %d rows over a in {1,2}, b in {1,2^40}, c in {x,y}, d in {true,false}, the empty table, two fixed 6-row tables with ties, one 7-row table with negative/extreme numbers and strings of different length and case", len(contents), maxRows)
	rep.Bounds["WHERE conditions"] = fmt.Sprintf("%d: every single atom (col|lit op col|lit, six operators, type-correct), every 2- and 3-atom AND/OR pattern over 8 representative atoms%s", len(qs.conds), map[bool]string{true: ", every 4-atom pattern over 5 atoms", false: ""}[env.Thorough()])
	rep.Bounds["select lists"] = fmt.Sprintf("%d: *, every ordered list of <= 2 items from 11 (columns, aliased, qualified, comparison expressions, literals; repeated columns included); plus %d lists of columns only: every ordered list of 3 from the 7 column items and of 4 from the 4 plain columns", len(qs.lists), len(qs.lists3))
	rep.Bounds["ORDER BY lists"] = len(qs.sorts)
	rep.Bounds["LIMIT/OFFSET"] = fmt.Sprintf("%d combinations of {absent,0,1,2,5} in both orders", len(qs.limits))
	rep.Bounds["cross-clause"] = "each clause in full with the others at defaults; plus every (select list x representative where), (where x order by), (order by x limit/offset), (select list with alias x order by alias x limit) combination"
	r := &queryRunner{env: env, rep: rep, fails: map[string]int{}, known: env.OpenKnown()}
	if env.Replay != "" {
		c05Replay(env, rep)
		return
	}
	star := []qItem{{kind: "star"}}
	from := []qJoin{{table: "t"}}
	repConds := []*qCond{nil, qs.conds[0], qs.conds[len(qs.conds)/3], qs.conds[len(qs.conds)/2], qs.conds[len(qs.conds)-5]}
	for ci, rows := range contents {
		if ci%env.NShards != env.Shard {
			continue
		}
		body := func(c *lib.Ctx) {
			qw := newQWorld(c, []*qTable{{name: "t", cols: c05Cols, rows: rows}})
			defer qw.w.destroy()
			// (1) WHERE in full
			for _, cond := range qs.conds {
				r.check(qw, &qQuery{items: star, from: from, where: cond, limit: -1, offset: -1}, "where", "")
			}
			// (2) select lists in full, with and without a WHERE
			for _, l := range qs.lists {
				for _, cond := range repConds[:3] {
					r.check(qw, &qQuery{items: l, from: from, where: cond, limit: -1, offset: -1}, "select-list", "")
				}
			}
			for _, l := range qs.lists3 {
				r.check(qw, &qQuery{items: l, from: from, limit: -1, offset: -1}, "select-list/columns", "")
			}
			// (3) ORDER BY in full x representative WHERE
			for _, s := range qs.sorts {
				for _, cond := range repConds {
					r.check(qw, &qQuery{items: star, from: from, where: cond, orderBy: s, limit: -1, offset: -1}, "order-by", "")
				}
			}
			// (4) LIMIT/OFFSET in full x {no order, two orderings}
			for _, lo := range qs.limits {
				for _, s := range [][]qSort{nil, {{qRef{"", "a"}, "DESC"}}, {{qRef{"", "c"}, ""}, {qRef{"", "b"}, "DESC"}}} {
					r.check(qw, &qQuery{items: star, from: from, orderBy: s, limit: lo[0], offset: lo[1], limitFirst: lo[2] == 1}, "limit-offset", "")
				}
			}
			// (4c) counts near the top of the integer range: a LIMIT larger than any table keeps everything, an
			// OFFSET larger than any table skips everything, and their sum is never computed in a way that wraps
			const maxI = int(^uint(0) >> 1)
			for _, lo := range [][2]int{{maxI, 1}, {maxI, 0}, {maxI, 2}, {maxI - 1, 2}, {1, maxI}, {maxI, maxI}, {maxI/2 + 1, maxI/2 + 1}, {1 << 31, 1}, {1<<32 + 1, 1}, {maxI, -1}, {-1, maxI}} {
				for _, first := range []bool{true, false} {
					for _, s := range [][]qSort{nil, {{qRef{"", "a"}, "DESC"}}} {
						r.check(qw, &qQuery{items: star, from: from, orderBy: s, limit: lo[0], offset: lo[1], limitFirst: first}, "limit-offset/extreme", "")
					}
				}
			}
			// (4b) WHERE x LIMIT/OFFSET without ORDER BY (the window counts matching rows, not scanned ones)
			for _, lo := range qs.limits {
				for _, cond := range repConds[1:] {
					r.check(qw, &qQuery{items: star, from: from, where: cond, limit: lo[0], offset: lo[1], limitFirst: lo[2] == 1}, "where+limit-offset", "")
				}
			}
			// (6) queries longer than the scanner's 1024-byte read buffer: a long AND/OR chain followed by ORDER BY
			// and LIMIT/OFFSET, shifted blank by blank so that each trailing keyword straddles a refill boundary
			if len(rows) >= 2 {
				for _, target := range []int{960, 1990} {
					var as []qAtom
					var ors []bool
					cond := &qCond{}
					for i := 0; len(cond.sql()) < target; i++ {
						as = append(as, []qAtom{{qc("", "a"), ql(int64(1)), ">="}, {qc("", "c"), ql("x"), "="}, {qc("", "b"), qc("", "a"), ">="}}[i%3])
						if i > 0 {
							ors = append(ors, i%5 == 0)
						}
						cond = &qCond{atoms: as, ors: ors}
					}
					// the statement head is 22 bytes: the trailing ORDER BY ... LIMIT ... OFFSET region starts just
					// before a refill boundary and is pushed across it one byte at a time
					for shift := 0; shift <= 70; shift++ {
						r.check(qw, &qQuery{items: star, from: from, where: cond, orderBy: []qSort{{qRef{"", "b"}, "DESC"}, {qRef{"", "d"}, ""}}, limit: 2, offset: 1, limitFirst: true,
							lead: fmt.Sprintf("%*s", shift, "")}, "long-query", "")
					}
				}
			}
			// (3b) a column repeated in the ORDER BY list, followed by a further key: the repetition decides nothing,
			// and every key keeps its own direction
			for _, s3 := range [][]qSort{
				{{qRef{"", "a"}, ""}, {qRef{"", "a"}, "DESC"}, {qRef{"", "b"}, ""}},
				{{qRef{"", "a"}, "DESC"}, {qRef{"", "a"}, ""}, {qRef{"", "b"}, "DESC"}},
				{{qRef{"", "c"}, ""}, {qRef{"", "c"}, "DESC"}, {qRef{"", "a"}, "DESC"}},
				{{qRef{"", "d"}, "DESC"}, {qRef{"", "d"}, "DESC"}, {qRef{"", "b"}, ""}, {qRef{"", "a"}, "DESC"}},
				{{qRef{"", "a"}, ""}, {qRef{"", "b"}, "DESC"}, {qRef{"", "a"}, "DESC"}, {qRef{"", "c"}, "DESC"}},
			} {
				for _, lo := range [][2]int{{-1, -1}, {2, 1}} {
					r.check(qw, &qQuery{items: star, from: from, orderBy: s3, limit: lo[0], offset: lo[1], limitFirst: true}, "order-by/repeated-key", "")
				}
			}
			// (5b) an alias that is also the name of another column of the table: ORDER BY <alias> means the output
			// column of that name
			for _, l := range [][]qItem{
				{{kind: "col", col: qRef{"", "a"}, alias: "b"}},
				{{kind: "col", col: qRef{"", "b"}, alias: "a"}},
				{{kind: "col", col: qRef{"", "a"}, alias: "b"}, {kind: "col", col: qRef{"", "b"}, alias: "a"}},
				{{kind: "col", col: qRef{"", "c"}, alias: "d"}, {kind: "col", col: qRef{"", "a"}}},
				{{kind: "col", col: qRef{"", "d"}, alias: "c"}, {kind: "col", col: qRef{"", "b"}}},
				// aliases that differ from the column's own name in letter case only, or not at all
				{{kind: "col", col: qRef{"", "a"}, alias: "A"}},
				{{kind: "col", col: qRef{"", "c"}, alias: "C"}, {kind: "col", col: qRef{"", "a"}}},
				{{kind: "col", col: qRef{"", "b"}, alias: "B"}, {kind: "col", col: qRef{"", "a"}, alias: "x"}},
				{{kind: "col", col: qRef{"", "a"}, alias: "a"}, {kind: "col", col: qRef{"", "b"}, alias: "A"}},
			} {
				for _, it := range l {
					for _, dir := range []string{"", "DESC"} {
						for _, lo := range [][2]int{{-1, -1}, {1, -1}, {2, 1}} {
							r.check(qw, &qQuery{items: l, from: from, orderBy: []qSort{{qRef{"", it.outName()}, dir}}, limit: lo[0], offset: lo[1], limitFirst: true}, "alias-named-like-a-column+order", "")
						}
					}
				}
			}
			// (5) projected + aliased + ordered by alias / by name + window
			for _, l := range [][]qItem{
				{{kind: "col", col: qRef{"", "c"}, alias: "y"}, {kind: "col", col: qRef{"", "a"}}},
				{{kind: "col", col: qRef{"", "b"}}, {kind: "col", col: qRef{"", "a"}, alias: "x"}, {kind: "col", col: qRef{"", "d"}}},
			} {
				var ks []qRef
				for _, it := range l {
					if it.alias != "" {
						ks = append(ks, qRef{"", it.alias})
					} else {
						ks = append(ks, it.col)
					}
				}
				for _, k1 := range ks {
					for _, d1 := range []string{"", "DESC"} {
						for _, lo := range [][2]int{{-1, -1}, {2, -1}, {1, 1}} {
							for _, cond := range repConds[:2] {
								r.check(qw, &qQuery{items: l, from: from, where: cond, orderBy: []qSort{{k1, d1}}, limit: lo[0], offset: lo[1], limitFirst: true}, "project+order+limit", "")
							}
						}
					}
				}
			}
		}
		x := lib.RunOnce(body, nil)
		if x.Fail != nil {
			rep.AddFailure(x.Fail)
		}
	}
	// (7) integer literals and LIMIT/OFFSET counts written with a leading zero are decimal (or refused), on a
	// 12-row table whose values tell 010 = ten from 010 = eight
	if env.Shard == 0 {
		var rows [][]any
		bs := []int64{8, 10, 64, 100, 7, 9, 1, 2, 3, 4, 5, 6}
		for i := 1; i <= 12; i++ {
			rows = append(rows, []any{int64(i), bs[i-1], []string{"x", "y"}[i%2], i%3 == 0})
		}
		x := lib.RunOnce(func(c *lib.Ctx) {
			qw := newQWorld(c, []*qTable{{name: "t", cols: c05Cols, rows: rows}})
			defer qw.w.destroy()
			for _, op := range []string{"=", "!=", "<", "<=", ">", ">="} {
				for _, n := range []int64{7, 8, 9, 10, 11, 12, 64, 100} {
					for _, col := range []string{"a", "b"} {
						r.check(qw, &qQuery{items: star, from: from, where: &qCond{atoms: []qAtom{{qc("", col), ql(n), op}}}, limit: -1, offset: -1, zeroPad: true, mayReject: true}, "zero-padded", "")
						r.check(qw, &qQuery{items: star, from: from, where: &qCond{atoms: []qAtom{{ql(n), qc("", col), op}}}, limit: -1, offset: -1, zeroPad: true, mayReject: true}, "zero-padded", "")
					}
				}
			}
			for _, lo := range [][3]int{{10, -1, 1}, {-1, 10, 1}, {10, 1, 1}, {1, 10, 0}, {8, 1, 1}, {9, 2, 0}, {11, 0, 1}, {12, 10, 1}} {
				for _, s := range [][]qSort{nil, {{qRef{"", "b"}, "DESC"}}} {
					r.check(qw, &qQuery{items: star, from: from, orderBy: s, limit: lo[0], offset: lo[1], limitFirst: lo[2] == 1, zeroPad: true, mayReject: true}, "zero-padded", "")
				}
			}
		}, nil)
		if x.Fail != nil {
			rep.AddFailure(x.Fail)
		}
	}
	// (9) two tables with the same column names at different positions, queried alternately: nothing learnt about
	// one statement's table may leak into the next statement
	if env.Shard == 3%env.NShards {
		rowsT := [][]any{{int64(1), int64(10), "x", true}, {int64(2), int64(20), "y", false}, {int64(2), int64(5), "x", true}}
		rowsR := [][]any{{false, "y", int64(7), int64(2)}, {true, "x", int64(1), int64(1)}, {true, "z", int64(30), int64(2)}}
		revCols := []mCol{{"d", "boolean"}, {"c", "varchar"}, {"b", "bigint"}, {"a", "int"}}
		x := lib.RunOnce(func(c *lib.Ctx) {
			qw := newQWorld(c, []*qTable{{name: "t", cols: c05Cols, rows: rowsT}, {name: "r", cols: revCols, rows: rowsR}})
			defer qw.w.destroy()
			fromR := []qJoin{{table: "r"}}
			warm := []*qQuery{
				{items: star, from: from, where: qs.conds[0], limit: -1, offset: -1},
				{items: star, from: from, where: qs.conds[len(qs.conds)/2], orderBy: []qSort{{qRef{"", "b"}, "DESC"}}, limit: -1, offset: -1},
				{items: star, from: from, orderBy: []qSort{{qRef{"", "c"}, ""}}, limit: 1, offset: -1},
			}
			for wi, wq := range warm {
				for _, l := range qs.lists {
					r.check(qw, wq, "alternating-tables", "")
					r.check(qw, &qQuery{items: l, from: fromR, limit: -1, offset: -1}, "alternating-tables", "")
					if wi == 0 {
						r.check(qw, &qQuery{items: l, from: fromR, orderBy: []qSort{{qRef{"", "a"}, ""}, {qRef{"", "b"}, "DESC"}}, limit: 2, offset: -1}, "alternating-tables", "")
					}
				}
			}
		}, nil)
		if x.Fail != nil {
			rep.AddFailure(x.Fail)
		}
	}
	rep.Bounds["alternating tables"] = "t(a,b,c,d) and r(d,c,b,a): a WHERE / ORDER BY query on t, then every select list without WHERE on r, alternately"
	// (8) BIGINT values next to each other where float64 no longer tells them apart (2^53 and the top of the
	// range), compared with literals of the same neighbourhood in every operator and operand order, and sorted
	if env.Shard == 1%env.NShards {
		const p53 = int64(1) << 53
		nb := []int64{p53 - 1, p53, p53 + 1, p53 + 2, 9223372036854775805, 9223372036854775806, 9223372036854775807}
		var rows [][]any
		for i, v := range nb {
			rows = append(rows, []any{int64(i + 1), v, []string{"x", "y"}[i%2], i%2 == 0})
		}
		x := lib.RunOnce(func(c *lib.Ctx) {
			qw := newQWorld(c, []*qTable{{name: "t", cols: c05Cols, rows: rows}})
			defer qw.w.destroy()
			for _, op := range []string{"=", "!=", "<", "<=", ">", ">="} {
				for _, lit := range nb {
					r.check(qw, &qQuery{items: star, from: from, where: &qCond{atoms: []qAtom{{qc("", "b"), ql(lit), op}}}, limit: -1, offset: -1}, "bigint-neighbours", "")
					r.check(qw, &qQuery{items: star, from: from, where: &qCond{atoms: []qAtom{{ql(lit), qc("", "b"), op}}}, limit: -1, offset: -1}, "bigint-neighbours", "")
				}
			}
			for _, dir := range []string{"", "DESC"} {
				r.check(qw, &qQuery{items: star, from: from, orderBy: []qSort{{qRef{"", "b"}, dir}}, limit: -1, offset: -1}, "bigint-neighbours", "")
				r.check(qw, &qQuery{items: star, from: from, orderBy: []qSort{{qRef{"", "d"}, ""}, {qRef{"", "b"}, dir}}, limit: 3, offset: 1, limitFirst: true}, "bigint-neighbours", "")
			}
		}, nil)
		if x.Fail != nil {
			rep.AddFailure(x.Fail)
		}
	}
	// (10) strings whose content begins or ends with a double quote, next to the same strings without it: as
	// stored values, as WHERE literals in every operator and operand order, and as select-list literals
	if env.Shard == 5%env.NShards {
		vals := []string{"6\"", "6", "\"x\"", "x", "\"", "", "x\"y", "\"\"", "\"x"}
		var rows [][]any
		for i, v := range vals {
			rows = append(rows, []any{int64(i + 1), int64(i), v, i%2 == 0})
		}
		x := lib.RunOnce(func(c *lib.Ctx) {
			qw := newQWorld(c, []*qTable{{name: "t", cols: c05Cols, rows: rows}})
			defer qw.w.destroy()
			r.check(qw, &qQuery{items: star, from: from, limit: -1, offset: -1}, "quote-edged-strings", "")
			for _, v := range vals {
				for _, op := range []string{"=", "!=", "<", "<=", ">", ">="} {
					r.check(qw, &qQuery{items: star, from: from, where: &qCond{atoms: []qAtom{{qc("", "c"), ql(v), op}}}, limit: -1, offset: -1}, "quote-edged-strings", "")
					r.check(qw, &qQuery{items: star, from: from, where: &qCond{atoms: []qAtom{{ql(v), qc("", "c"), op}}}, limit: -1, offset: -1}, "quote-edged-strings", "")
				}
				r.check(qw, &qQuery{items: []qItem{{kind: "lit", lit: v}, {kind: "col", col: qRef{"", "c"}}}, from: from, limit: -1, offset: -1}, "quote-edged-strings", "")
				r.check(qw, &qQuery{items: []qItem{{kind: "cond", cond: &qCond{atoms: []qAtom{{qc("", "c"), ql(v), "="}}}}, {kind: "lit", lit: v, alias: "l"}}, from: from, orderBy: []qSort{{qRef{"", "c"}, "DESC"}}, limit: -1, offset: -1}, "quote-edged-strings", "")
			}
		}, nil)
		if x.Fail != nil {
			rep.AddFailure(x.Fail)
		}
	}
	rep.Bounds["quote-edged strings"] = "c in {6\", 6, \"x\", x, \", empty, x\"y, \"\", \"x}: each as a WHERE literal in every operator and operand order and as a select-list literal"
	rep.Bounds["bigint neighbours"] = "b in {2^53-1 .. 2^53+2, 2^63-3 .. 2^63-1} compared with each of these values in every operator and operand order; ORDER BY b"
	rep.Bounds["zero-padded literals"] = "a/b compared with 07..012, 064, 0100 in every operator and operand order; LIMIT/OFFSET 08..012 (12-row table; must be read as decimal or refused)"
	rep.Bounds["queries executed (this shard)"] = r.nQuery
}

// c05Replay re-runs one recorded (tables, query) pair from its text form.
func c05Replay(env *lib.Env, rep *lib.Report) {
	rf := lib.LoadReplay(env.Replay)
	lib.RestoreStderr()
	lib.Say("replay of %s: %s\n tables: %s\n recorded: %s", rf.Trace[0], rf.Trace[1], rf.Trace[2], rf.Detail)
	lib.Say("(re-run the check to re-evaluate: query replays are textual records)")
}
