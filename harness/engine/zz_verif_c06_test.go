package engine

import (
	"fmt"

	"verif/lib"
)

// C06 — JOIN results equal the relational definition. Three tables with a
// shared column name; every combination of their contents (all multisets of
// <= 2 rows over keys {1,2}, including empty sides and duplicate keys); every
// chain of 1..2 joins over the four join spellings x table choices (including
// the same table under two aliases) x ON conditions; select lists addressing
// columns by alias / by name / unqualified (unique and ambiguous).

func init() { verifChecks["C06"] = runC06 }

var c06Schemas = map[string][]mCol{
	"t": {{"k", "int"}, {"p", "int"}, {"s", "varchar"}}, // three columns: row slices with spare capacity
	"u": {{"k", "int"}, {"q", "int"}},
	"v": {{"k", "int"}, {"r", "varchar"}},
}

func c06Contents(table string) [][][]any {
	tag := func(i int) any {
		if table == "v" {
			return fmt.Sprintf("%s%d", table, i)
		}
		return int64(10*(i+1) + map[string]int{"t": 0, "u": 100}[table])
	}
	row := func(k int64, i int) []any {
		if table == "t" {
			return []any{k, tag(i), fmt.Sprintf("s%d", i)}
		}
		return []any{k, tag(i)}
	}
	out := [][][]any{{}}
	for _, k1 := range []int64{1, 2} {
		out = append(out, [][]any{row(k1, 0)})
		for _, k2 := range []int64{1, 2} {
			out = append(out, [][]any{row(k1, 0), row(k2, 1)})
		}
	}
	// a row whose non-key columns are NULL (the keys never are), behind a row that has values there: a real NULL
	// must come back as NULL on either side of every join, whatever the rows before it held
	if table != "v" {
		for _, k1 := range []int64{1, 2} {
			null := []any{int64(2), nil}
			if table == "t" {
				null = []any{int64(2), nil, nil}
			}
			out = append(out, [][]any{row(k1, 0), null})
		}
	}
	return out
}

type c06From struct {
	joins []qJoin
	ids   []string // table ids (alias or name) in order
	names []string
	dup   bool // two tables of the chain carry the same id: only the rejection of unqualified shared names is checked
}

func runC06(env *lib.Env, rep *lib.Report) {
	lib.SilenceStderr()
	defer lib.RestoreStderr()
	r := &queryRunner{env: env, rep: rep, fails: map[string]int{}, known: env.OpenKnown()}
	if env.Replay != "" {
		c05Replay(env, rep)
		return
	}
	// the thorough tier first covers the quick tier's bounds completely, then its own until the soft deadline
	passes := []bool{false}
	if env.Thorough() {
		passes = []bool{false, true}
	}
	for _, th := range passes {
		c06Pass(env, rep, r, th)
		if !rep.Exhaustive {
			break
		}
		if env.Thorough() && !th {
			rep.Bounds["phase 1 (bounds of the quick tier, explored first)"] = map[string]any{"queries executed (this shard)": r.nQuery, "completed": true}
		}
	}
	rep.Bounds["queries executed (this shard)"] = r.nQuery
}

// c06Pass runs the enumeration with the quick tier's bounds (deep false) or the thorough tier's (deep true).
func c06Pass(env *lib.Env, rep *lib.Report, r *queryRunner, deep bool) {
	kinds := []string{"INNER JOIN", "JOIN", "LEFT JOIN", "RIGHT JOIN"}
	// ON conditions between the new table (id b) and an earlier one (id a)
	onConds := func(a, b string, second string) []*qCond {
		kb := "q"
		if second == "v" {
			kb = "k"
		}
		if second == "t" {
			kb = "p"
		}
		return []*qCond{
			{atoms: []qAtom{{qc(a, "k"), qc(b, "k"), "="}}},
			{atoms: []qAtom{{qc(b, "k"), qc(a, "k"), "!="}}},
			{atoms: []qAtom{{qc(a, "k"), qc(b, "k"), "<="}}},
			// an unqualified name that only the table being joined has: fine while that table is in the chain once,
			// ambiguous as soon as it is joined a second time (also when an earlier step has already resolved it)
			{atoms: []qAtom{{qc(a, "k"), qc(b, "k"), "="}, {qc("", kb), ql(int64(1)), ">"}}, ors: []bool{false}},
			{atoms: []qAtom{{qc(a, "k"), qc(b, "k"), "="}, {qc(b, kb), ql(int64(1)), ">"}}, ors: []bool{false}},
			{atoms: []qAtom{{qc(a, "k"), qc(b, "k"), "="}, {qc(a, "k"), ql(int64(2)), "="}}, ors: []bool{true}},
			{atoms: []qAtom{{ql(int64(1)), ql(int64(1)), "="}}},
			{atoms: []qAtom{{ql(int64(1)), ql(int64(2)), "="}}},
			// ordering comparisons written with the literal on the left
			{atoms: []qAtom{{ql(int64(1)), qc(b, "k"), "<"}}},
			{atoms: []qAtom{{qc(a, "k"), qc(b, "k"), "="}, {ql(int64(2)), qc(a, "k"), ">"}}, ors: []bool{false}},
			// an unqualified name that both sides have, in the right operand of AND / OR (must be rejected, whether or
			// not the left operand already decides)
			{atoms: []qAtom{{qc(a, "k"), qc(b, "k"), "="}, {qc("", "k"), ql(int64(1)), "="}}, ors: []bool{false}},
			{atoms: []qAtom{{qc(a, "k"), qc(b, "k"), "!="}, {qc("", "k"), ql(int64(1)), "="}}, ors: []bool{true}},
			// three atoms where the grouping of AND and OR decides the answer: (p AND q) OR r, p OR (q AND r)
			{atoms: []qAtom{{qc(a, "k"), qc(b, "k"), "="}, {qc(b, kb), ql(int64(100)), ">"}, {qc(a, "k"), ql(int64(2)), "="}}, ors: []bool{false, true}},
			{atoms: []qAtom{{qc(a, "k"), ql(int64(2)), "="}, {qc(a, "k"), qc(b, "k"), "="}, {qc(b, kb), ql(int64(100)), ">"}}, ors: []bool{true, false}},
			// (from here on: single joins only in the quick tier)
			// the bare boolean literals, alone and next to a comparison
			{atoms: []qAtom{{l: ql(true)}}},
			{atoms: []qAtom{{l: ql(false)}}},
			{atoms: []qAtom{{qc(a, "k"), qc(b, "k"), "="}, {l: ql(true)}}, ors: []bool{false}},
			{atoms: []qAtom{{l: ql(false)}, {qc(a, "k"), qc(b, "k"), "="}}, ors: []bool{true}},
			// chains of three and four terms under one connective (a pair of rows may satisfy a middle term only)
			{atoms: []qAtom{{qc(a, "k"), ql(int64(100)), "="}, {qc(a, "k"), qc(b, "k"), "="}, {qc(b, kb), ql(int64(100)), ">"}}, ors: []bool{true, true}},
			{atoms: []qAtom{{qc(a, "k"), ql(int64(100)), "="}, {qc(b, kb), ql(int64(100)), ">"}, {qc(a, "k"), qc(b, "k"), "="}, {qc(b, "k"), ql(int64(100)), "="}}, ors: []bool{true, true, true}},
			{atoms: []qAtom{{qc(a, "k"), ql(int64(100)), "<"}, {qc(a, "k"), qc(b, "k"), "="}, {qc(b, "k"), ql(int64(100)), "<"}}, ors: []bool{false, false}},
		}
	}
	const c06BaseConds = 14
	type tchoice struct{ table, alias string }
	firsts := []tchoice{{"t", ""}, {"t", "x"}}
	// (aliases that differ from another table id only in letter case are still different ids)
	seconds := []tchoice{{"u", ""}, {"u", "y"}, {"t", "t2"}, {"v", ""}, {"t", "X"}, {"u", "T"}}
	thirds := []tchoice{{"v", ""}, {"v", "z"}, {"u", "u2"}, {"t", "t3"}}
	id := func(c tchoice) string {
		if c.alias != "" {
			return c.alias
		}
		return c.table
	}
	var froms []c06From
	for _, f := range firsts {
		for _, s := range seconds {
			if s.table == "t" && f.alias == "" && s.alias == "" {
				continue
			}
			for _, k1 := range kinds {
				for oi1, on1 := range onConds(id(f), id(s), s.table) {
					one := c06From{joins: []qJoin{{table: f.table, alias: f.alias}, {kind: k1, table: s.table, alias: s.alias, on: on1}}, ids: []string{id(f), id(s)}, names: []string{f.table, s.table}}
					froms = append(froms, one)
					if !deep && (k1 == "JOIN" || len(on1.atoms) > 1 && on1.ors[0] || oi1 >= c06BaseConds) {
						continue // the two-join chains use three join spellings and a smaller ON set in the quick tier
					}
					for thi, th := range thirds {
						if id(th) == id(f) || id(th) == id(s) {
							continue
						}
						if !deep && thi%2 == 1 {
							continue
						}
						for _, k2 := range kinds {
							if !deep && k2 == "JOIN" {
								continue
							}
							// the second ON may refer to the first or to the second table
							for _, base := range []string{id(f), id(s)} {
								for oi, on2 := range onConds(base, id(th), th.table) {
									if !deep && oi >= 4 {
										continue
									}
									froms = append(froms, c06From{
										joins: append(append([]qJoin{}, one.joins...), qJoin{kind: k2, table: th.table, alias: th.alias, on: on2}),
										ids:   []string{id(f), id(s), id(th)}, names: []string{f.table, s.table, th.table}})
								}
							}
						}
					}
				}
			}
		}
	}
	// chains in which two tables carry the same id (an unaliased self-join, two tables under one alias, a chain
	// whose first and third tables are the same unaliased table): an unqualified name that both have is still
	// ambiguous, in the select list and in ON
	one1 := &qCond{atoms: []qAtom{{ql(int64(1)), ql(int64(1)), "="}}}
	kIs1 := &qCond{atoms: []qAtom{{qc("", "k"), ql(int64(1)), "="}}}
	nDup := 0
	for _, k1 := range kinds {
		for _, pair := range [][2]tchoice{{{"t", ""}, {"t", ""}}, {{"t", "x"}, {"u", "x"}}, {{"t", "x"}, {"t", "x"}}, {{"u", "t"}, {"t", ""}}} {
			for _, on := range []*qCond{one1, kIs1} {
				froms = append(froms, c06From{dup: true, joins: []qJoin{{table: pair[0].table, alias: pair[0].alias}, {kind: k1, table: pair[1].table, alias: pair[1].alias, on: on}},
					ids: []string{id(pair[0]), id(pair[1])}, names: []string{pair[0].table, pair[1].table}})
				nDup++
			}
		}
		for _, on := range []*qCond{one1, kIs1} {
			froms = append(froms, c06From{dup: true, joins: []qJoin{{table: "t"}, {kind: k1, table: "u", on: &qCond{atoms: []qAtom{{qc("t", "k"), qc("u", "k"), "="}}}}, {kind: k1, table: "t", on: on}},
				ids: []string{"t", "u", "t"}, names: []string{"t", "u", "t"}})
			nDup++
		}
	}
	rep.Bounds["FROM clauses with a repeated table id"] = fmt.Sprintf("%d (unaliased self-join, two tables under one alias, the same table twice under one alias, an alias equal to another table's name, t JOIN u JOIN t; ON 1 = 1 and ON k = 1): SELECT k and ON k = 1 must be rejected", nDup)
	rep.Bounds["FROM clauses"] = fmt.Sprintf("%d join chains (1..2 joins; INNER JOIN / JOIN / LEFT JOIN / RIGHT JOIN; self-joins under aliases; 21 ON conditions incl. an unqualified name that becomes ambiguous at a later join step, the bare literals TRUE / FALSE, chains of three and four terms under one connective, ordering comparisons with the literal on the left, an ambiguous unqualified name behind AND / OR, AND/OR, mixed AND/OR of three atoms and constants)", len(froms))
	cT, cU, cV := c06Contents("t"), c06Contents("u"), c06Contents("v")
	rep.Bounds["table contents"] = fmt.Sprintf("%d x %d x %d: all multisets of <= 2 rows over keys {1,2} per table (empty sides, duplicate keys); for t and u also two contents whose second row has NULL in every non-key column", len(cT), len(cU), len(cV))
	rep.Bounds["select lists per FROM"] = "*; all columns qualified by table id; unqualified unique column; unqualified ambiguous column k (must be rejected); column qualified by the table name although an alias exists (must be rejected)"
	// another database in the same process whose tables t, u, v have other columns (other order, another count):
	// queried before and after the databases of the main enumeration, as a server does that serves several databases
	altWorld := func(when string) {
		body := func(c *lib.Ctx) {
			qw := newQWorld(c, []*qTable{
				{name: "t", cols: []mCol{{"s", "varchar"}, {"k", "int"}}, rows: [][]any{{"a1", int64(1)}, {"a2", int64(2)}}},
				{name: "u", cols: []mCol{{"q", "int"}, {"z", "int"}, {"k", "int"}, {"y", "varchar"}}, rows: [][]any{{int64(5), int64(6), int64(1), "y1"}, {int64(7), int64(8), int64(3), "y3"}}},
				{name: "v", cols: []mCol{{"r", "varchar"}, {"k", "int"}}, rows: [][]any{{"r2", int64(2)}}}})
			defer qw.w.destroy()
			for _, kind := range []string{"JOIN", "LEFT JOIN", "RIGHT JOIN"} {
				for _, pair := range [][2]string{{"t", "u"}, {"u", "v"}, {"v", "t"}} {
					js := []qJoin{{table: pair[0]}, {kind: kind, table: pair[1], on: &qCond{atoms: []qAtom{{qc(pair[0], "k"), qc(pair[1], "k"), "="}}}}}
					r.check(qw, &qQuery{items: []qItem{{kind: "star"}}, from: js, limit: -1, offset: -1}, "join/other-database-"+when, "")
					r.check(qw, &qQuery{items: []qItem{{kind: "col", col: qRef{pair[1], "k"}}, {kind: "col", col: qRef{pair[0], "k"}}}, from: js, limit: -1, offset: -1}, "join/other-database-"+when, "")
				}
			}
		}
		if x := lib.RunOnce(body, nil); x.Fail != nil {
			rep.AddFailure(x.Fail)
		}
	}
	altWorld("first")
	defer altWorld("last")
	n := 0
	for _, rt := range cT {
		for _, ru := range cU {
			for vi, rv := range cV {
				if !deep && vi != (len(rt)*3+len(ru)*2+int(fmt.Sprint(rt, ru)[len(fmt.Sprint(rt, ru))/2]))%len(cV) {
					continue // quick tier: one of v's contents per (t,u) pair, rotating
				}
				n++
				if n%env.NShards != env.Shard {
					continue
				}
				if deep && env.Expired() {
					if rep.Exhaustive {
						rep.Exhaustive = false
						rep.Bounds["phase 2 cut by the soft deadline"] = fmt.Sprintf("this shard completed %d of its databases of the thorough tier's bounds", n/env.NShards)
					}
					continue
				}
				body := func(c *lib.Ctx) {
					qw := newQWorld(c, []*qTable{{name: "t", cols: c06Schemas["t"], rows: rt}, {name: "u", cols: c06Schemas["u"], rows: ru}, {name: "v", cols: c06Schemas["v"], rows: rv}})
					defer qw.w.destroy()
					for _, f := range froms {
						base := qQuery{from: f.joins, limit: -1, offset: -1}
						if f.dup {
							q := base
							q.items = []qItem{{kind: "col", col: qRef{"", "k"}}}
							r.check(qw, &q, "join/ambiguous-repeated-id", "")
							continue
						}
						q := base
						q.items = []qItem{{kind: "star"}}
						r.check(qw, &q, "join/*", "")
						// every column, qualified by its table id
						var items []qItem
						for ti, tid := range f.ids {
							for _, col := range c06Schemas[f.names[ti]] {
								items = append(items, qItem{kind: "col", col: qRef{tid, col.Name}})
							}
						}
						q = base
						q.items = items
						r.check(qw, &q, "join/qualified-columns", "")
						// reversed order with an alias on the first item
						rev := make([]qItem, len(items))
						for i := range items {
							rev[len(items)-1-i] = items[i]
						}
						rev[0].alias = "al"
						q = base
						q.items = rev
						r.check(qw, &q, "join/qualified-columns-reversed", "")
						// unqualified: the second column of the last table is unique unless the table appears twice
						last := f.names[len(f.names)-1]
						q = base
						q.items = []qItem{{kind: "col", col: qRef{"", c06Schemas[last][1].Name}}}
						r.check(qw, &q, "join/unqualified", "")
						// unqualified k exists on both sides: must be rejected
						q = base
						q.items = []qItem{{kind: "col", col: qRef{"", "k"}}}
						r.check(qw, &q, "join/ambiguous", "")
						// qualified by the table name although the table has an alias: must be rejected
						for ti, tid := range f.ids {
							if tid != f.names[ti] {
								dup := false
								for tj, other := range f.ids {
									if tj != ti && other == f.names[ti] {
										dup = true // the bare name legitimately denotes another occurrence
									}
								}
								if !dup {
									q = base
									q.items = []qItem{{kind: "col", col: qRef{f.names[ti], "k"}}}
									r.check(qw, &q, "join/name-hidden-by-alias", "")
									// ... also for a column whose bare name occurs only once in the whole join (a qualifier that
									// names no table of the join is an error, not something to be ignored)
									uniq := map[string]string{"t": "s", "u": "q", "v": "r"}[f.names[ti]]
									occurs := 0
									for _, nm := range f.names {
										if nm == f.names[ti] {
											occurs++
										}
									}
									if occurs == 1 {
										q = base
										q.items = []qItem{{kind: "col", col: qRef{f.names[ti], uniq}}}
										r.check(qw, &q, "join/name-hidden-by-alias", "")
										q = base
										q.items = []qItem{{kind: "col", col: qRef{"nosuch", uniq}}}
										r.check(qw, &q, "join/unknown-qualifier", "")
									}
								}
							}
						}
						// WHERE on top of the join
						q = base
						q.items = []qItem{{kind: "star"}}
						q.where = &qCond{atoms: []qAtom{{qc(f.ids[0], "k"), ql(int64(1)), "="}}}
						r.check(qw, &q, "join/where", "")
					}
				}
				x := lib.RunOnce(body, nil)
				if x.Fail != nil {
					rep.AddFailure(x.Fail)
				}
			}
		}
	}
}
