package engine

import (
	"fmt"

	"verif/lib"
)

// C02 — acknowledged statements survive a crash between statements: every
// history x every flush placement x crash after every statement (each distinct
// prefix ends in a crash) x up to two crash/recover cycles with statements in
// between; recovery is run twice (idempotence) and the recovered database must
// keep working (the history continues on it, ids are never reused).

func init() { verifChecks["C02"] = runC02 }

var c02Alpha = alphaOpt{Tables: []string{"t1", "t2"}, Inserts: []int{1, 9}, Updates: true, Deletes: true}

func runC02(env *lib.Env, rep *lib.Report) {
	d, bound := 3, 1
	seeds := []string{"empty", "t1x8", "t1x8+t2t3", "t1x8+t2t3-crashed", "interleaved", "t1x12+t2x1", "t1-nulls-big"}
	alpha := c02Alpha
	alpha.FewDeletes = true
	if env.Thorough() {
		d, bound = 4, 2
		alpha = c02Alpha
		alpha.NullInsert, alpha.BigInsert = true, true
		seeds = append(seeds, "t1x8-upper-deleted", "t1x8-crashed", "t1x30", "catalog-split")
	}
	var cfgs []histCfg
	for _, seed := range seeds {
		a := alpha
		if seed == "t1x8" {
			// refused statements (row over the limit) between acknowledged ones: whatever they use up or stamp on
			// the way to being refused must not confuse a later recovery
			a.FailingInsert = true
			a.FailingCreate = true
		}
		if seed == "t1x12+t2x1" {
			// CREATE TABLE takes row ids and LSNs without writing a log record: after it the header is
			// ahead of everything the log mentions
			a.OnlyCreate = []string{"t3"}
		}
		cfgs = append(cfgs, histCfg{Name: "real/" + seed, Opt: worldOpt{}, Seed: seed, Alpha: a, Depth: d,
			TickChoice: true, Reopen: true, Crash: true, FinalCrash: true})
	}
	// the session re-selects its database between statements (the store is closed and opened again, nothing is
	// recovered): what the closing flush writes and what the new store reads must agree before the next crash
	cfgs = append(cfgs, histCfg{Name: "real/t1x8/reselect", Opt: worldOpt{}, Seed: "t1x8",
		Alpha: alphaOpt{Tables: []string{"t1"}, Inserts: []int{1, 9}, Updates: true, Deletes: true, FewDeletes: true}, Depth: d, TickChoice: true, Reselect: true, Crash: true, FinalCrash: true})
	// reduced capacity: deeper trees, more splits per statement
	reduced := []string{"interleaved"}
	if env.Thorough() {
		reduced = []string{"empty", "interleaved"}
	}
	for _, seed := range reduced {
		cfgs = append(cfgs, histCfg{Name: "leaf3-int3/" + seed, Opt: worldOpt{Leaf: 3, Internal: 3}, Seed: seed, Alpha: alpha, Depth: d,
			TickChoice: true, Reopen: true, Crash: true, FinalCrash: true})
	}
	// three-level trees at leaf capacity 5/6, every alignment of the right-most leaf (9..30 seed rows): a row is
	// inserted, deleted and its tombstone moved by a leaf split under a root older than the row; then flush or
	// not, crash, recovery (the log is replayed against pages that have moved on)
	for n := 9; n <= 30; n++ {
		for _, caps := range [][2]int{{5, 3}, {6, 4}} {
			if !env.Thorough() && (n+caps[0])%2 == 1 {
				continue
			}
			cfgs = append(cfgs, histCfg{Name: fmt.Sprintf("leaf%d-int%d/t1x%d-single-rows", caps[0], caps[1], n), Opt: worldOpt{Leaf: caps[0], Internal: caps[1]}, Seed: singleRowSeed(n),
				Alpha: alphaOpt{Tables: []string{"t1"}, Inserts: []int{1, 2}, Deletes: true, LastDelete: true}, Depth: d + 1, TickChoice: true, FinalCrash: true})
		}
	}
	rep.Bounds["depth"] = d
	rep.Bounds["crash bound (intermediate crash/recover cycles; every history additionally ends in a crash)"] = bound
	rep.Bounds["configs"] = cfgNames(cfgs)
	rep.Bounds["flush placement"] = "full product: after every statement, tick or no tick; plus clean shutdown + restart as an event"
	explore(env, rep, bound, histBody(cfgs, bound))
}
