package engine

import (
	"fmt"
	"go/ast"
	"go/parser"
	"go/token"
	"os"
	"path/filepath"
	"runtime"
	"sort"
	"strings"
	"time"

	"github.com/mk6i/mkdb/sql"
	"verif/lib"
)

// C09 — the SQL front end is total: for every input, tokenising and parsing
// return a statement or an error value (no panic, no hang). Enumerated:
//  (i)   every byte string up to a length over a 30-symbol byte alphabet, through engine.parseSQL;
//  (ii)  every token sequence up to a length over the full token vocabulary (plus text variants), fed to sql.Parser directly;
//  (iii) every statement of a corpus covering all productions with every single edit
//        (delete / duplicate / substitute a token by every vocabulary token / truncate);
//  (iv)  unterminated quotes of both kinds at every position, integer literals of 19-40 digits in every integer position.

func init() { verifChecks["C09"] = runC09 }

var c09Corpus = []string{
	"SELECT * FROM t",
	"SELECT a, b x, c AS y FROM t WHERE a = 1 AND b != 'x' OR c >= 3 ORDER BY a DESC, x ASC LIMIT 5 OFFSET 2",
	"SELECT t.a, u.b FROM t JOIN u ON t.a = u.a LEFT JOIN v w ON w.a = t.a AND w.b < 2 WHERE t.a <= 4",
	"SELECT t.a FROM t INNER JOIN u ON t.a = u.a RIGHT JOIN v ON v.a = u.a",
	"SELECT count(*), avg(t.a), count(b) z, g FROM t GROUP BY g ORDER BY g",
	"SELECT g, h, count(*) FROM t GROUP BY g, h",
	"SELECT 1 = 1, 'a' = 'b', true AND false OR true",
	"SELECT a FROM t OFFSET 3 LIMIT 1",
	"INSERT INTO t VALUES (1, 'a', true), (2, 'b', false)",
	"INSERT INTO t (a, b) VALUES (1, 'x')",
	"UPDATE t SET a = 1, b = 'x', c = true WHERE a > 0 AND b = 'y'",
	"UPDATE t SET a = b",
	"DELETE FROM t WHERE a = 1 OR a = 2",
	"DELETE FROM t",
	"CREATE TABLE t (a int, b bigint, c varchar(255), d boolean)",
	"CREATE DATABASE d",
	"USE d",
	"SHOW DATABASE",
	"SHOW databases",
	"select \"select\", \"a b\" from \"from\" where \"where\" = 'x'",
	// longer chains of everything that repeats: four joins, five terms, five items, four keys, four rows, four columns
	"SELECT * FROM a JOIN b ON a.x = b.x JOIN c ON b.x = c.x RIGHT JOIN d ON c.x = d.x LEFT JOIN e f ON d.x = f.x",
	"SELECT a, b, c, d, e FROM t WHERE a = 1 OR b = 2 AND c = 3 OR d = 4 AND e = 5 GROUP BY a, b, c, d, e ORDER BY a, b DESC, c ASC, d LIMIT 1",
	"INSERT INTO t (a, b, c, d) VALUES (1, 2, 3, 4), (5, 6, 7, 8), (9, 10, 11, 12), (13, 14, 15, 16)",
	"UPDATE t SET a = 1, b = 2, c = 3, d = 4 WHERE a = 1 AND b = 2 AND c = 3 AND d = 4",
}

type c09Sym struct {
	tok  sql.Token
	name string
}

// c09Vocabulary: every token type (including the enum boundaries and EOF) plus
// text variants that the parser inspects.
func c09Vocabulary() []c09Sym {
	var out []c09Sym
	var types []int
	for tt := range sql.Tokens {
		types = append(types, int(tt))
	}
	sort.Ints(types)
	seen := map[int]bool{}
	for _, t := range types {
		seen[t] = true
	}
	// boundary enums are not in sql.Tokens: add every integer in the range
	for t := 0; t <= types[len(types)-1]+1; t++ {
		if !seen[t] {
			types = append(types, t)
		}
	}
	sort.Ints(types)
	for _, t := range types {
		tt := sql.TokenType(t)
		name := sql.Tokens[tt]
		if name == "" {
			name = fmt.Sprintf("tok#%d", t)
		}
		switch tt {
		case sql.IDENT:
			out = append(out, c09Sym{sql.Token{Type: tt, Text: "t"}, "ident:t"}, c09Sym{sql.Token{Type: tt, Text: "databases"}, "ident:databases"},
				// (identifiers spelled like words of SQL that are not reserved here, and the empty identifier)
				c09Sym{sql.Token{Type: tt, Text: "if"}, "ident:if"}, c09Sym{sql.Token{Type: tt, Text: ""}, "ident:empty"})
		case sql.INT:
			out = append(out, c09Sym{sql.Token{Type: tt, Text: "1"}, "int:1"}, c09Sym{sql.Token{Type: tt, Text: "99999999999999999999"}, "int:20digits"},
				c09Sym{sql.Token{Type: tt, Text: ""}, "int:empty"}, c09Sym{sql.Token{Type: tt, Text: "0"}, "int:0"}, c09Sym{sql.Token{Type: tt, Text: "9223372036854775807"}, "int:max"})
		case sql.STR:
			out = append(out, c09Sym{sql.Token{Type: tt, Text: "s"}, "str:s"}, c09Sym{sql.Token{Type: tt, Text: ""}, "str:empty"})
		default:
			out = append(out, c09Sym{sql.Token{Type: tt, Text: name}, name})
		}
	}
	// words the current sql/parser.go compares token texts with (string constants of the
	// mirrored source, found with go/ast): a parser change that starts to look for a new
	// word ("exists", "not", "primary", ...) puts that word into the vocabulary by itself
	have := map[string]bool{}
	for _, s := range out {
		have[strings.ToLower(s.tok.Text)] = true
	}
	for _, w := range c09ParserWords() {
		if have[strings.ToLower(w)] {
			continue
		}
		have[strings.ToLower(w)] = true
		out = append(out, c09Sym{sql.Token{Type: sql.IDENT, Text: w}, "ident:" + w}, c09Sym{sql.Token{Type: sql.STR, Text: w}, "str:" + w})
	}
	out = append(out, c09Sym{sql.EOFToken, "EOF"})
	return out
}

// c09ParserWords: the word-like string constants (at most 16 letters, digits or
// underscores) of the mirrored sql/parser.go outside its import block, sorted.
func c09ParserWords() []string {
	_, self, _, _ := runtime.Caller(0)
	fset := token.NewFileSet()
	pars, err := parser.ParseFile(fset, filepath.Join(filepath.Dir(filepath.Dir(self)), "sql", "parser.go"), nil, 0)
	if err != nil {
		panic(lib.HarnessError{Msg: fmt.Sprintf("cannot parse the mirrored sql/parser.go: %v", err)})
	}
	set := map[string]bool{}
	for _, d := range pars.Decls {
		if gd, ok := d.(*ast.GenDecl); ok && gd.Tok == token.IMPORT {
			continue
		}
		ast.Inspect(d, func(n ast.Node) bool {
			bl, ok := n.(*ast.BasicLit)
			if !ok || bl.Kind != token.STRING || len(bl.Value) < 3 || len(bl.Value) > 18 {
				return true
			}
			w := bl.Value[1 : len(bl.Value)-1]
			for _, c := range w {
				if !(c == '_' || c >= '0' && c <= '9' || c >= 'a' && c <= 'z' || c >= 'A' && c <= 'Z') {
					return true
				}
			}
			set[w] = true
			return true
		})
	}
	var out []string
	for w := range set {
		out = append(out, w)
	}
	sort.Strings(out)
	return out
}

func c09ParseTokens(toks []sql.Token) (res any, err error, pan any) {
	defer func() {
		if x := recover(); x != nil {
			pan = x
		}
	}()
	tl := sql.TokenList{}
	for _, t := range toks {
		tl.Add(t)
	}
	p := sql.Parser{TokenList: tl}
	res, err = p.Parse()
	if err != nil {
		_ = err.Error() // an error value is something whose message can be read
	}
	return
}

func c09ParseText(q string) (res any, err error, pan any) {
	defer func() {
		if x := recover(); x != nil {
			pan = x
		}
	}()
	res, err = parseSQL(q)
	if err != nil {
		_ = err.Error() // an error value is something whose message can be read
	}
	return
}

func c09Scan(q string) []sql.Token {
	var out []sql.Token
	defer func() { recover() }()
	ts := sql.NewTokenScanner(strings.NewReader(q))
	for ts.Next() {
		out = append(out, ts.Cur())
	}
	return out
}

type c09Run struct {
	env    *lib.Env
	rep    *lib.Report
	n      int64
	panics int64
	fails  map[string]int
	prog   lib.Progress
}

func (r *c09Run) mine() bool {
	r.n++
	return int(r.n%int64(r.env.NShards)) == r.env.Shard
}

func (r *c09Run) judge(family, input string, res any, err error, pan any) {
	kind := "error"
	if pan != nil {
		kind = "PANIC"
	} else if err == nil {
		kind = fmt.Sprintf("%T", res)
	}
	r.rep.AddCase(kind != "error", lib.HashString(family+"|"+kind), lib.HashString(kind))
	if pan != nil {
		r.panics++
		msg := fmt.Sprint(pan)
		key := family + ": " + msg
		if len(key) > 120 {
			key = key[:120]
		}
		r.fails[key]++
		if r.fails[key] <= 2 {
			r.rep.AddFailure(&lib.Failure{Kind: "parser-panic", Detail: fmt.Sprintf("[%s] input %q panics: %v", family, input, pan), Trace: []string{family, input}, Params: family})
		} else {
			r.rep.FailCount++
		}
	}
	if r.rep.WantSample() && kind != "error" {
		r.rep.AddSample(map[string]any{"family": family, "input": input, "outcome": kind})
	}
}

func runC09(env *lib.Env, rep *lib.Report) {
	lib.SilenceStderr()
	defer lib.RestoreStderr()
	r := &c09Run{env: env, rep: rep, fails: map[string]int{}}
	if env.Replay != "" {
		rf := lib.LoadReplay(env.Replay)
		lib.RestoreStderr()
		input := rf.Trace[1]
		var res any
		var err error
		var pan any
		if strings.HasPrefix(rf.Trace[0], "tokens") || strings.HasPrefix(rf.Trace[0], "edit") {
			var toks []sql.Token
			voc := map[string]sql.Token{}
			for _, s := range c09Vocabulary() {
				voc[s.name] = s.tok
			}
			for _, n := range strings.Split(input, " ") {
				toks = append(toks, voc[n])
			}
			res, err, pan = c09ParseTokens(toks)
		} else {
			res, err, pan = c09ParseText(input)
		}
		lib.Say("replay: %q -> res=%v err=%v panic=%v", input, res, err, pan)
		if pan != nil {
			rep.AddFailure(&lib.Failure{Kind: "parser-panic", Detail: fmt.Sprint(pan), Trace: rf.Trace})
		}
		return
	}
	voc := c09Vocabulary()
	lib.StartWatchdog(env, rep, &r.prog, 45*time.Second, "parser-hang")
	r.prog.MapJournal(env.Journal)
	defer r.prog.Done()
	// ---- (i) byte strings
	alphabet := []byte{'a', 'S', '1', '0', '\'', '"', '`', '\\', '\n', ' ', '(', ')', ',', '.', ';', '*', '=', '!', '<', '>', '-', '+', '/', '_', 0x00, 0x80, 0xff, 0xef, '\t', '9', 'e', 'x', 'b'}
	maxLen := 5
	if env.Thorough() {
		maxLen = 6
	}
	rep.Bounds["(i) byte strings"] = fmt.Sprintf("all strings of length <= %d over %d bytes %q", maxLen, len(alphabet), string(alphabet))
	buf := make([]byte, 0, 8)
	var rec func(depth int)
	rec = func(depth int) {
		if depth > 0 && r.mine() {
			s := string(buf)
			r.prog.Set("bytes", s)
			res, err, pan := c09ParseText(s)
			r.judge("bytes", s, res, err, pan)
		}
		if depth == maxLen {
			return
		}
		for _, b := range alphabet {
			buf = append(buf, b)
			rec(depth + 1)
			buf = buf[:len(buf)-1]
		}
	}
	rec(0)
	// keyword-led byte strings: a statement keyword followed by every byte string up to length 3
	leads := []string{"select ", "select a from t where ", "insert into t values (", "create table t (a varchar(", "select a from t limit ", "update t set a = ", "select a from t group by "}
	// ... and, behind every word of the token vocabulary used as an operator, the inside of a string literal (a
	// parser that starts to interpret what a literal says - a pattern, a date, a number - meets every short content)
	var words []string
	for _, name := range sql.Tokens {
		if len(name) >= 2 && strings.Trim(name, "ABCDEFGHIJKLMNOPQRSTUVWXYZ") == "" {
			words = append(words, name)
		}
	}
	sort.Strings(words)
	for _, kw := range words {
		leads = append(leads, "select a from t where a "+kw+" '")
	}
	leads = append(leads, "select a from t where a = '", "select '", "insert into t values ('", "update t set a = '", "select a from t where 'x' = '")
	rep.Bounds["(i-b) keyword-led byte strings"] = fmt.Sprintf("%d leads (statement prefixes; every upper-case word of the token vocabulary as an operator followed by an open string literal) x all strings of length <= 3", len(leads))
	for _, lead := range leads {
		var rec2 func(depth int)
		rec2 = func(depth int) {
			if r.mine() {
				s := lead + string(buf)
				r.prog.Set("lead+bytes", s)
				res, err, pan := c09ParseText(s)
				r.judge("lead+bytes", s, res, err, pan)
			}
			if depth == 3 {
				return
			}
			for _, b := range alphabet {
				buf = append(buf, b)
				rec2(depth + 1)
				buf = buf[:len(buf)-1]
			}
		}
		rec2(0)
	}
	// ---- (ii) token sequences over the full vocabulary
	tokLen := 4
	rep.Bounds["(ii) token sequences"] = fmt.Sprintf("all sequences of length <= %d over %d symbols (every token type incl. enum boundaries and EOF, text variants for IDENT/INT/STR)", tokLen, len(voc))
	toks := make([]sql.Token, 0, 8)
	names := make([]string, 0, 8)
	var rect func(depth int)
	rect = func(depth int) {
		if depth > 0 && r.mine() {
			r.prog.Set("tokens", strings.Join(names, " "))
			res, err, pan := c09ParseTokens(toks)
			r.judge("tokens", strings.Join(names, " "), res, err, pan)
		}
		if depth == tokLen {
			return
		}
		for _, s := range voc {
			toks = append(toks, s.tok)
			names = append(names, s.name)
			rect(depth + 1)
			toks = toks[:len(toks)-1]
			names = names[:len(names)-1]
		}
	}
	rect(0)
	// ---- (ii-b) one symbol longer over the reduced vocabulary: the tokens the current
	// sql/parser.go refers to (computed from the mirrored source with go/ast, so a parser
	// change that looks at a new token widens the vocabulary by itself) plus one
	// representative of the unreferenced class, which the parser cannot tell apart
	if env.Thorough() {
		red := c09ReducedVocabulary(voc)
		rep.Bounds["(ii-b) token sequences, reduced vocabulary"] = fmt.Sprintf("all sequences of length %d over %d symbols (tokens referenced in sql/parser.go + 1 unreferenced representative)", tokLen+1, len(red))
		var rect2 func(depth int)
		rect2 = func(depth int) {
			if depth == tokLen+1 {
				if r.mine() {
					r.prog.Set("tokens-reduced", strings.Join(names, " "))
					res, err, pan := c09ParseTokens(toks)
					r.judge("tokens-reduced", strings.Join(names, " "), res, err, pan)
				}
				return
			}
			for _, s := range red {
				toks = append(toks, s.tok)
				names = append(names, s.name)
				rect2(depth + 1)
				toks = toks[:len(toks)-1]
				names = names[:len(names)-1]
			}
		}
		rect2(0)
	}
	// ---- (iii) corpus statements with single (thorough: double) edits, as token lists
	rep.Bounds["(iii) edits"] = fmt.Sprintf("%d corpus statements x every single edit (delete, duplicate, substitute by each of %d symbols, truncate at every position)%s", len(c09Corpus), len(voc), map[bool]string{true: " and every pair of substitutions at adjacent positions", false: ""}[env.Thorough()])
	for _, q := range c09Corpus {
		base := c09Scan(q)
		render := func(ts []sql.Token) string {
			var n []string
			for _, t := range ts {
				n = append(n, fmt.Sprintf("%d:%s", t.Type, t.Text))
			}
			return strings.Join(n, " ")
		}
		try := func(ts []sql.Token, fam string) {
			if !r.mine() {
				return
			}
			r.prog.Set(fam, render(ts))
			res, err, pan := c09ParseTokens(ts)
			r.judge(fam, render(ts), res, err, pan)
		}
		try(base, "corpus")
		for i := range base {
			try(base[:i], "edit:truncate")
			del := append(append([]sql.Token{}, base[:i]...), base[i+1:]...)
			try(del, "edit:delete")
			dup := append(append(append([]sql.Token{}, base[:i+1]...), base[i]), base[i+1:]...)
			try(dup, "edit:duplicate")
			for _, s := range voc {
				sub := append([]sql.Token{}, base...)
				sub[i] = s.tok
				try(sub, "edit:substitute")
				ins := append(append(append([]sql.Token{}, base[:i]...), s.tok), base[i:]...)
				try(ins, "edit:insert")
				if env.Thorough() && i+1 < len(base) {
					for _, s2 := range voc {
						sub2 := append([]sql.Token{}, sub...)
						sub2[i+1] = s2.tok
						try(sub2, "edit:substitute2")
					}
				}
			}
		}
		// ---- (iv) text-level families on the corpus
		for i := 0; i <= len(q); i++ {
			for _, qc := range []string{"'", "\"", "`"} {
				s := q[:i] + qc + q[i:]
				if r.mine() {
					r.prog.Set("text:quote-inserted", s)
					res, err, pan := c09ParseText(s)
					r.judge("text:quote-inserted", s, res, err, pan)
				}
				s = q[:i] + qc
				if r.mine() {
					r.prog.Set("text:truncated+quote", s)
					res, err, pan := c09ParseText(s)
					r.judge("text:truncated+quote", s, res, err, pan)
				}
			}
			if r.mine() {
				r.prog.Set("text:truncated", q[:i])
				res, err, pan := c09ParseText(q[:i])
				r.judge("text:truncated", q[:i], res, err, pan)
			}
		}
		// every integer literal position replaced by 19..40 digit literals
		words := strings.Fields(q)
		for wi, wd := range words {
			trimmed := strings.Trim(wd, "(),")
			if trimmed == "" || strings.Trim(trimmed, "0123456789") != "" {
				continue
			}
			for digits := 18; digits <= 40; digits++ {
				for _, lead := range []string{"9", "1"} {
					big := lead + strings.Repeat("9", digits-1)
					nw := append([]string{}, words...)
					nw[wi] = strings.Replace(wd, trimmed, big, 1)
					s := strings.Join(nw, " ")
					if r.mine() {
						r.prog.Set("text:big-integer", s)
						res, err, pan := c09ParseText(s)
						r.judge("text:big-integer", s, res, err, pan)
					}
				}
			}
		}
	}
	// ---- (v) long inputs: every corpus statement padded to each length around the scanner's
	// refill boundaries (the vendored scanner reads its source in 1024-byte chunks) by a long
	// string literal, a long identifier, a long run of blanks, and a long integer
	rep.Bounds["(v) long inputs"] = "every corpus statement padded to total lengths 1000..1060, 2040..2060, 4090..4100, 8190..8200 and 70000 by a string literal / identifier / blanks / digits"
	var lengths []int
	for l := 1000; l <= 1060; l++ {
		lengths = append(lengths, l)
	}
	for _, base := range []int{2040, 4090, 8190} {
		for l := base; l <= base+20; l++ {
			lengths = append(lengths, l)
		}
	}
	lengths = append(lengths, 70000)
	for _, q := range c09Corpus {
		for _, total := range lengths {
			pad := total - len(q) - 8
			if pad < 1 {
				continue
			}
			for _, mk := range []func(n int) string{
				func(n int) string { return q + " '" + strings.Repeat("z", n) + "'" },
				func(n int) string {
					return "SELECT '" + strings.Repeat("w", n) + "' , " + strings.TrimPrefix(q, "SELECT ")
				},
				func(n int) string { return q + " " + strings.Repeat("i", n) },
				func(n int) string { return strings.Repeat(" ", n) + q },
				func(n int) string { return q + " " + strings.Repeat("7", n) },
			} {
				s := mk(pad)
				if r.mine() {
					r.prog.Set("text:long", fmt.Sprintf("%s…(%d bytes)", s[:40], len(s)))
					res, err, pan := c09ParseText(s)
					r.judge("text:long", fmt.Sprintf("%.60s…(%d bytes)", s, len(s)), res, err, pan)
				}
			}
		}
	}
	// ---- (v-b) one long token full of lexical errors (invalid escapes, NUL bytes, invalid UTF-8), terminated and
	// not: besides terminating without a panic, tokenising and parsing may allocate only in proportion to the
	// input (1 MiB + 1000 bytes per input byte; the unchanged parser stays below 150 bytes per input byte)
	rep.Bounds["(v-b) long tokens full of lexical errors"] = "a literal / delimited identifier / bare run of 4096, 16384 and 70000 bytes of \\q, NUL, 0xff and 0xc3, closed and unclosed: no panic, and at most 1 MiB + 1000 x input length bytes allocated"
	for _, total := range []int{4096, 16384, 70000} {
		for _, unit := range []string{"\\q", "\x00", "\xff", "\xc3", "\\"} {
			body := strings.Repeat(unit, total/len(unit))
			for _, s := range []string{"SELECT '" + body + "' FROM t", "SELECT \"" + body + "\" FROM t", "SELECT '" + body, "SELECT a FROM t WHERE c = \"" + body, "SELECT " + body + " FROM t"} {
				if !r.mine() {
					continue
				}
				label := fmt.Sprintf("%.24q…(%d bytes of %q)", s, len(s), unit)
				r.prog.Set("text:long-errors", label)
				var m0, m1 runtime.MemStats
				runtime.ReadMemStats(&m0)
				res, err, pan := c09ParseText(s)
				runtime.ReadMemStats(&m1)
				r.judge("text:long-errors", label, res, err, pan)
				if alloc, limit := m1.TotalAlloc-m0.TotalAlloc, uint64(1<<20+1000*len(s)); alloc > limit {
					r.rep.AddFailure(&lib.Failure{Kind: "parser-memory", Detail: fmt.Sprintf("[text:long-errors] input %s: parsing allocated %d bytes, %d times the input length (limit %d)", label, alloc, alloc/uint64(len(s)), limit),
						Trace: []string{"text:long-errors", s}, Params: "text:long-errors"})
				}
			}
		}
	}
	// ---- (v-c) short numeric spellings that denote astronomically large or small values (exponents, hexadecimal
	// floats, long digit runs with separators): whatever the front end makes of them, it does so in time and
	// memory proportional to the text (the 45 s watchdog and the allocation bound of (v-b) apply)
	numShapes := []string{"1e9", "1e19", "1e400", "1e50000000", "1e600000000", "1e9999999999999", "9e-50000000", "1.5e308", "2.5e3", "1E+77", "0x1p9999999", "0x1p-9999999", "0x1.8p1",
		"1_0e1_0", "1e", "1e+", "1.e5", ".5e5", "0b1e5", "0o7e9", "0e0", "00e00", "1e0000000000000000000000000000000000009", "123456789012345678901234567890e123456789"}
	rep.Bounds["(v-c) numeric spellings"] = fmt.Sprintf("%d spellings with exponents / hexadecimal mantissas / digit separators in 7 positions (select item, WHERE operand, LIMIT, OFFSET, VALUES, SET, VARCHAR length)", len(numShapes))
	for _, num := range numShapes {
		for _, s := range []string{"SELECT " + num, "SELECT a FROM t WHERE a = " + num, "SELECT a FROM t LIMIT " + num, "SELECT a FROM t OFFSET " + num + " LIMIT 1", "INSERT INTO t VALUES (" + num + ")",
			"UPDATE t SET a = " + num, "CREATE TABLE t (a varchar(" + num + "))"} {
			if !r.mine() {
				continue
			}
			r.prog.Set("text:numbers", s)
			var m0, m1 runtime.MemStats
			runtime.ReadMemStats(&m0)
			res, err, pan := c09ParseText(s)
			runtime.ReadMemStats(&m1)
			r.judge("text:numbers", s, res, err, pan)
			if alloc, limit := m1.TotalAlloc-m0.TotalAlloc, uint64(1<<20+1000*len(s)); alloc > limit {
				r.rep.AddFailure(&lib.Failure{Kind: "parser-memory", Detail: fmt.Sprintf("[text:numbers] input %q: parsing allocated %d bytes (limit %d)", s, alloc, limit), Trace: []string{"text:numbers", s}, Params: "text:numbers"})
			}
		}
	}
	// ---- (vi) every word of every corpus statement replaced by a word / literal of 1..48 multi-byte characters
	// (2, 3 and 4 bytes each): whatever the parser does with it - accept it or name it in an error - byte length
	// and character count differ here
	rep.Bounds["(vi) multi-byte words"] = "every word of every corpus statement replaced by a bare word and by a quoted literal of 1..48 characters of 2, 3 and 4 bytes"
	for _, q := range c09Corpus {
		words := strings.Fields(q)
		for wi := range words {
			for _, ch := range []string{"é", "日", "🙂"} {
				for n := 1; n <= 48; n++ {
					for _, quoted := range []bool{false, true} {
						nw := append([]string{}, words...)
						nw[wi] = strings.Repeat(ch, n)
						if quoted {
							nw[wi] = "'" + nw[wi] + "'"
						}
						s := strings.Join(nw, " ")
						if r.mine() {
							r.prog.Set("text:multi-byte-word", s)
							res, err, pan := c09ParseText(s)
							r.judge("text:multi-byte-word", s, res, err, pan)
						}
					}
				}
			}
		}
	}
	// ---- (vii) deep nesting / long runs of one opening token: a parser that backtracks or recurses per level
	// meets runs of 30 .. 10000 of them, left open, closed, and followed by something it cannot parse
	{
		var nest int64
		for _, lead := range []string{"DELETE FROM t WHERE ", "SELECT * FROM t WHERE a = ", "SELECT ", "INSERT INTO t VALUES ", "CREATE TABLE t ", "UPDATE t SET a = ", "SELECT * FROM t JOIN u ON ", ""} {
			for _, open := range []string{"(", "((", "( ", "NOT ", "- ", "(SELECT ", "a = (", "1 AND (", "'", "\"", "[", "{"} {
				for _, n := range []int{30, 40, 64, 100, 1000, 10000} {
					for _, tail := range []string{"", "1", "a = 1", strings.Repeat(")", n), "1" + strings.Repeat(")", n), "a = 1" + strings.Repeat(")", n) + " AND", ","} {
						if !r.mine() {
							continue
						}
						nest++
						q := lead + strings.Repeat(open, n) + tail
						r.prog.Set("nesting", fmt.Sprintf("%q + %d x %q + %q", lead, n, open, clipC09(tail)))
						res, err, pan := c09ParseText(q)
						r.judge("nesting", fmt.Sprintf("%s%d x %q %s", lead, n, open, clipC09(tail)), res, err, pan)
					}
				}
			}
		}
		rep.Bounds["(vii) deep nesting"] = "8 statement prefixes x 12 opening tokens repeated 30/40/64/100/1000/10000 times x 7 tails (left open, closed, closed and continued), under the per-input watchdog"
	}
	rep.Bounds["inputs enumerated (all shards)"] = r.n
	_ = os.Stderr
}

// c09ReducedVocabulary keeps the symbols whose token constant is mentioned in
// the mirrored sql/parser.go (found with go/ast), plus one unreferenced one.
func clipC09(s string) string {
	if len(s) > 40 {
		return s[:20] + fmt.Sprintf("..(%d bytes)", len(s))
	}
	return s
}

func c09ReducedVocabulary(voc []c09Sym) []c09Sym {
	_, self, _, _ := runtime.Caller(0)
	sqlDir := filepath.Join(filepath.Dir(filepath.Dir(self)), "sql")
	fset := token.NewFileSet()
	scan, err1 := parser.ParseFile(fset, filepath.Join(sqlDir, "scanner.go"), nil, 0)
	pars, err2 := parser.ParseFile(fset, filepath.Join(sqlDir, "parser.go"), nil, 0)
	if err1 != nil || err2 != nil {
		panic(lib.HarnessError{Msg: fmt.Sprintf("cannot parse the mirrored sql package: %v %v", err1, err2)})
	}
	// the first const block of scanner.go lists the token constants in iota order
	constVal := map[string]int{}
	for _, d := range scan.Decls {
		gd, ok := d.(*ast.GenDecl)
		if !ok || gd.Tok != token.CONST || len(constVal) > 0 {
			continue
		}
		i := 0
		for _, sp := range gd.Specs {
			for _, n := range sp.(*ast.ValueSpec).Names {
				constVal[n.Name] = i
				i++
			}
		}
	}
	used := map[int]bool{}
	ast.Inspect(pars, func(n ast.Node) bool {
		if id, ok := n.(*ast.Ident); ok {
			if v, isTok := constVal[id.Name]; isTok {
				used[v] = true
			}
			if id.Name == "literals" {
				for _, l := range []string{"INT", "STR", "TRUE", "FALSE"} {
					used[constVal[l]] = true
				}
			}
		}
		return true
	})
	var out []c09Sym
	extra := false
	for _, s := range voc {
		if s.name == "EOF" || used[int(s.tok.Type)] {
			out = append(out, s)
		} else if !extra {
			out = append(out, s)
			extra = true
		}
	}
	if len(out) < 20 {
		panic(lib.HarnessError{Msg: "reduced vocabulary implausibly small"})
	}
	return out
}
