package engine

import (
	"fmt"
	"strconv"
	"strings"

	"github.com/mk6i/mkdb/storage"
	"verif/lib"
)

// C14 — a statement that returns an error changes nothing: seeds x failing
// statements (every error class; multi-row statements whose k-th row is the
// invalid one for every k) x observation point (immediately, after a timer
// flush, after a clean restart, after crash recovery). Oracle: every table and
// the catalog read back exactly as in the snapshot taken before the statement.

func init() { verifChecks["C14"] = runC14 }

type failStmt struct {
	SQL   string
	Class string
	K     int // 1-based index of the first failing row operation (0: fails before any row)
	M     int // row operations in the statement
}

func lits(vals ...any) string {
	s := make([]string, len(vals))
	for i, v := range vals {
		s[i] = sqlLit(v)
	}
	return "(" + strings.Join(s, ", ") + ")"
}

// failingStatements builds the failing statements for table t1(a int, c varchar)
// in the current model state.
func failingStatements(w *world, maxM int) []failStmt {
	var out []failStmt
	t := w.model.Tables["t1"]
	next := t.Inserted + 1
	bad := map[string]string{
		"type-mismatch":    lits("x", "r"),
		"int-out-of-range": lits(int64(2147483648), "r"),
		"int-below-range":  "(2147483647, 'r'), (0, 'r'), (2147483649, 'r')", // placeholder, replaced below
		"too-few-values":   lits(int64(7)),
		"too-many-values":  lits(int64(7), "r", "s"),
		"row-401-bytes":    lits(int64(7), strings.Repeat("y", 391)), // 1+4 + 1+4+391 = 401
	}
	delete(bad, "int-below-range")
	for _, class := range lib.SortedKeys(bad) {
		for m := 1; m <= maxM; m++ {
			for k := 1; k <= m; k++ {
				var rows []string
				for i := 1; i <= m; i++ {
					if i == k {
						rows = append(rows, bad[class])
					} else {
						rows = append(rows, lits(int64(next+i-1), fmt.Sprintf("r%d", next+i-1)))
					}
				}
				out = append(out, failStmt{SQL: "INSERT INTO t1 VALUES " + strings.Join(rows, ", "), Class: "insert/" + class, K: k, M: m})
				if class == "too-few-values" || class == "type-mismatch" {
					// the same with an explicit column list
					out = append(out, failStmt{SQL: "INSERT INTO t1 (a, c) VALUES " + strings.Join(rows, ", "), Class: "insert-collist/" + class, K: k, M: m})
				}
			}
		}
	}
	// multi-row inserts that first fill the leaf (split) and then fail
	var rows []string
	for i := 0; i < 9; i++ {
		rows = append(rows, lits(int64(next+i), fmt.Sprintf("r%d", next+i)))
	}
	rows = append(rows, bad["type-mismatch"])
	out = append(out, failStmt{SQL: "INSERT INTO t1 VALUES " + strings.Join(rows, ", "), Class: "insert/type-mismatch-after-split", K: 10, M: 10})
	// statements on a table that does not exist
	out = append(out,
		failStmt{SQL: "INSERT INTO nosuch VALUES (1, 'r')", Class: "insert/unknown-table", K: 0, M: 1},
		failStmt{SQL: "UPDATE nosuch SET c = 'z'", Class: "update/unknown-table"},
		failStmt{SQL: "DELETE FROM nosuch", Class: "delete/unknown-table"},
		failStmt{SQL: "DELETE FROM nosuch WHERE a = 1", Class: "delete/unknown-table"},
		// an existing table's name in another letter case names no table (if a version of the engine accepts it,
		// the statement either succeeds as a whole or leaves nothing behind)
		failStmt{SQL: fmt.Sprintf("INSERT INTO T1 VALUES (%d, 'r')", next), Class: "insert/unknown-table-other-case", K: 0, M: 1},
		failStmt{SQL: fmt.Sprintf("INSERT INTO T1 VALUES (%d, 'r'), (%d, 'r')", next, next+1), Class: "insert/unknown-table-other-case", K: 0, M: 2},
		failStmt{SQL: "UPDATE T1 SET c = 'z'", Class: "update/unknown-table-other-case"},
		failStmt{SQL: "DELETE FROM T1", Class: "delete/unknown-table-other-case"},
		failStmt{SQL: "CREATE TABLE t1 (z int)", Class: "create/duplicate"},
		failStmt{SQL: "CREATE TABLE t1 (a int, c varchar(255))", Class: "create/duplicate"},
		failStmt{SQL: "UPDATE t1 SET c = a", Class: "update/set-from-column"},
		// table definitions an engine may or may not accept: if it refuses one, nothing of the table stays behind
		failStmt{SQL: "CREATE TABLE w1 (a int, b int, a int)", Class: "create/repeated-column"},
		failStmt{SQL: "CREATE TABLE w2 (a int, a varchar(255))", Class: "create/repeated-column"},
		failStmt{SQL: "CREATE TABLE w3 (a int, b varchar(255), c boolean, b bigint, e int)", Class: "create/repeated-column"},
		failStmt{SQL: "CREATE TABLE w4 ()", Class: "create/no-columns"},
		failStmt{SQL: "CREATE TABLE w5 (a varchar(0))", Class: "create/varchar-0"},
	)
	// a column the catalog cannot hold (a length beyond the INT range; a name that makes its catalog row longer than a
	// row may be) at every position k of m columns, and a table name that is too long for the page table
	// (K stays 0: these are not row operations of the D16 kind; the position is part of the class)
	for m := 1; m <= 4; m++ {
		for k := 1; k <= m; k++ {
			for kind, col := range []string{"x varchar(3000000000)", strings.Repeat("n", 395) + " int", strings.Repeat("v", 380) + " varchar(3000000000)"} {
				var cols []string
				for i := 1; i <= m; i++ {
					if i == k {
						cols = append(cols, col)
					} else {
						cols = append(cols, fmt.Sprintf("c%d %s", i, []string{"int", "varchar(255)", "boolean", "bigint"}[i%4]))
					}
				}
				out = append(out, failStmt{SQL: fmt.Sprintf("CREATE TABLE wu%d%d%d (%s)", m, k, kind, strings.Join(cols, ", ")), Class: fmt.Sprintf("create/unstorable-column-%d-of-%d", k, m)})
			}
		}
	}
	out = append(out, failStmt{SQL: "CREATE TABLE " + strings.Repeat("w", 400) + " (a int, b int)", Class: "create/table-name-too-long"})
	if len(t.Rows) > 0 {
		// valid statements over the whole tree: they are expected to succeed (then there is nothing to judge here);
		// if the engine fails one of them half way, the same rule applies - an error means nothing has changed
		half := t.Inserted / 2
		out = append(out,
			failStmt{SQL: "DELETE FROM t1", Class: "valid/delete-all", K: 0, M: len(t.Rows)},
			failStmt{SQL: fmt.Sprintf("DELETE FROM t1 WHERE a > %d", half), Class: "valid/delete-upper-half", K: 0, M: len(t.Rows)},
			failStmt{SQL: fmt.Sprintf("DELETE FROM t1 WHERE a <= %d", half), Class: "valid/delete-lower-half", K: 0, M: len(t.Rows)},
			failStmt{SQL: "UPDATE t1 SET c = 'v'", Class: "valid/update-all", K: 0, M: len(t.Rows)},
			// (sets the value that one row in the middle / the last row / the first row already holds)
			failStmt{SQL: fmt.Sprintf("UPDATE t1 SET c = '%v'", t.Rows[len(t.Rows)/2].Vals[1]), Class: "valid/update-all-to-a-held-value", K: 0, M: len(t.Rows)},
			failStmt{SQL: fmt.Sprintf("UPDATE t1 SET c = '%v'", t.Rows[len(t.Rows)-1].Vals[1]), Class: "valid/update-all-to-a-held-value", K: 0, M: len(t.Rows)},
			failStmt{SQL: fmt.Sprintf("UPDATE t1 SET c = '%v', a = %v WHERE a > 0", t.Rows[0].Vals[1], t.Rows[0].Vals[0]), Class: "valid/update-all-to-a-held-value", K: 0, M: len(t.Rows)},
			failStmt{SQL: fmt.Sprintf("INSERT INTO t1 VALUES (%d, 'v')", next), Class: "valid/insert", K: 0, M: 1},
			failStmt{SQL: "CREATE TABLE w9 (a int, c varchar(255))", Class: "valid/create-table", K: 0, M: 0},
			failStmt{SQL: "CREATE TABLE w8 (a int, b bigint, c varchar(255), d boolean)", Class: "valid/create-table", K: 0, M: 0})
		out = append(out,
			failStmt{SQL: "UPDATE t1 SET a = 'x'", Class: "update/type-mismatch", K: 1, M: len(t.Rows)},
			failStmt{SQL: "UPDATE t1 SET a = 2147483648", Class: "update/int-out-of-range", K: 1, M: len(t.Rows)},
			failStmt{SQL: "UPDATE t1 SET c = 'ok', a = true WHERE a > 0", Class: "update/type-mismatch-second-column", K: 1, M: len(t.Rows)},
			failStmt{SQL: fmt.Sprintf("UPDATE t1 SET c = '%s'", strings.Repeat("z", 391)), Class: "update/row-401-bytes", K: 1, M: len(t.Rows)},
			failStmt{SQL: "UPDATE t1 SET c = 'q' WHERE a = 'x'", Class: "update/where-type-confused", K: 0},
			failStmt{SQL: "UPDATE t1 SET c = 'q' WHERE nosuchcol = 1", Class: "update/where-unknown-column", K: 0},
			failStmt{SQL: "DELETE FROM t1 WHERE nosuchcol = 1", Class: "delete/where-unknown-column", K: 0},
		)
	}
	// a WHERE clause that is evaluated fine for the first rows and errors on a later one (NULL operand of >):
	// the statement fails as a whole, before any row operation
	if t5, ok := w.model.Tables["t5"]; ok && len(t5.Rows) > 1 {
		out = append(out,
			failStmt{SQL: "UPDATE t5 SET c = 'q' WHERE a > 0", Class: "update/where-errors-on-later-row", K: 0, M: len(t5.Rows)},
			failStmt{SQL: "DELETE FROM t5 WHERE a > 0", Class: "delete/where-errors-on-later-row", K: 0, M: len(t5.Rows)},
			failStmt{SQL: "UPDATE t5 SET c = 'q' WHERE a > 0 AND c = 'r1'", Class: "update/where-errors-on-later-row", K: 0, M: len(t5.Rows)},
			// valid: sets a column that is NULL in a later row (expected to succeed; if it is failed half way, nothing may have changed)
			failStmt{SQL: "UPDATE t5 SET a = 9", Class: "valid/update-column-null-in-a-later-row", K: 0, M: len(t5.Rows)},
			failStmt{SQL: "UPDATE t5 SET a = 9, c = 'w'", Class: "valid/update-column-null-in-a-later-row", K: 0, M: len(t5.Rows)})
	}
	// UPDATE overflowing the row limit on the k-th matching row only: t4 has one long row
	if t4, ok := w.model.Tables["t4"]; ok {
		k := 0
		for i, r := range t4.Rows {
			if len(r.Vals[1].(string)) > 100 {
				k = i + 1
			}
		}
		out = append(out, failStmt{SQL: fmt.Sprintf("UPDATE t4 SET e = '%s'", strings.Repeat("w", 120)), Class: "update/row-limit-on-kth-row", K: k, M: len(t4.Rows)})
		// the same overflow with the new value taken from another column of the row (refused as a whole on the pinned
		// tree: SET col = col is not supported; an engine that supports it must still fail it as a whole)
		out = append(out, failStmt{SQL: "UPDATE t4 SET e = c", Class: "update/set-from-column-row-limit-on-kth-row", K: k, M: len(t4.Rows)},
			failStmt{SQL: "UPDATE t4 SET e = c, c = 'q'", Class: "update/set-from-column-row-limit-on-kth-row", K: k, M: len(t4.Rows)})
	}
	return out
}

// c14Seeds: name -> builder. t4 variants put the long row at position k.
func c14Seed(w *world, name string) *world {
	switch {
	case name == "t1x8-row-ids-used-up":
		// eight rows, flushed; then the row id counter is put at the top of its range (what four billion rows do):
		// only the valid single-row INSERT runs here - an engine that refuses it must leave nothing behind
		ok := w.do(mkCreate("t1", worldSchemas["t1"])) && w.do(mkInsert(w.model, "t1", 8, false)) && w.tick()
		if ok {
			storage.VerifSetLastKey(w.sess.RelationService, 1<<32-1)
		}
		return okw(w, ok)
	case name == "t1x8-maxrow-upper":
		// eight rows in one leaf, the sixth of them exactly at the 400-byte limit: the next row splits the leaf and
		// the split has to move the big row
		ok := w.do(mkCreate("t1", worldSchemas["t1"])) && w.do(mkInsert(w.model, "t1", 5, false)) && w.do(mkInsert(w.model, "t1", 1, true)) && w.do(mkInsert(w.model, "t1", 2, false))
		return okw(w, ok)
	case name == "small:t1x40":
		// reduced capacity: 40 rows make a tree of several levels with split internal nodes
		ok := w.do(mkCreate("t1", worldSchemas["t1"]))
		for i := 0; ok && i < 4; i++ {
			ok = w.do(mkInsert(w.model, "t1", 10, false))
		}
		return okw(w, ok)
	case strings.HasPrefix(name, "t4k"):
		k := int(name[3] - '0')
		cols := []mCol{{"a", "int"}, {"c", "varchar"}, {"e", "varchar"}}
		ok := w.do(mkCreate("t1", worldSchemas["t1"])) && w.do(mkInsert(w.model, "t1", 2, false)) && w.do(mkCreate("t4", cols))
		for i := 1; ok && i <= 3; i++ {
			cval := fmt.Sprintf("r%d", i)
			if i == k {
				cval = strings.Repeat("L", 280)
			}
			row := []any{int64(i), cval, "e"}
			st := stmt{SQL: "INSERT INTO t4 VALUES " + lits(row...), Kind: "insert", Table: "t4", N: 1, apply: func(m *mModel, _ int) {
				t := m.Tables["t4"]
				t.Rows = append(t.Rows, &mRow{Vals: row})
				t.Inserted++
			}}
			ok = w.do(st)
		}
		return okw(w, ok)
	case name == "t5-null-later":
		// t5(a int, c varchar): two ordinary rows, then a row whose a is NULL, then another ordinary one
		ok := w.do(mkCreate("t1", worldSchemas["t1"])) && w.do(mkInsert(w.model, "t1", 2, false)) && w.do(mkCreate("t5", worldSchemas["t1"])) &&
			w.do(mkInsert(w.model, "t5", 2, false))
		if ok {
			st := stmt{SQL: "INSERT INTO t5 (c) VALUES ('null-a')", Kind: "insert", Table: "t5", N: 1, apply: func(m *mModel, _ int) {
				t := m.Tables["t5"]
				t.Rows = append(t.Rows, &mRow{Vals: []any{nil, "null-a"}})
				t.Inserted++
			}}
			ok = w.do(st) && w.do(mkInsert(w.model, "t5", 1, false))
		}
		return okw(w, ok)
	case strings.HasPrefix(name, "deep:t1x"):
		// real page capacities, N rows: around the row count at which the root interior page of the table fills
		// up and splits (290 separators, one leaf split per four rows)
		n, _ := strconv.Atoi(strings.TrimPrefix(name, "deep:t1x"))
		ok := w.do(mkCreate("t1", worldSchemas["t1"]))
		for n > 0 && ok {
			b := n
			if b > 50 {
				b = 50
			}
			ok = w.do(mkInsert(w.model, "t1", b, false))
			n -= b
		}
		return okw(w, ok)
	case name == "t1x12+refused+t2+restart":
		// a table whose root has split and that got single rows afterwards (log records that every program start
		// looks at again), then row ids used up without a log record (a refused INSERT, a CREATE TABLE), then a
		// clean shutdown and restart: the counters recovery arrives at must cover everything handed out before
		ok := w.do(mkCreate("t1", worldSchemas["t1"])) && w.do(mkInsert(w.model, "t1", 9, false))
		for i := 0; ok && i < 3; i++ {
			ok = w.do(mkInsert(w.model, "t1", 1, false))
		}
		if st, has := mkInsertTooLarge(w.model, "t1"); ok && has {
			ok = w.do(st)
		}
		ok = ok && w.do(mkCreate("t2", worldSchemas["t2"]))
		if !ok {
			return nil
		}
		rs := w.sess.RelationService
		if err := guard(func() error { return w.sess.Close() }); err != nil {
			w.failErr("close-failed", "Session.Close", err)
			return nil
		}
		storage.VerifMarkClosed(rs)
		return okw(w.recoverFrom(w.image(), false), !w.c.Failed())
	case name == "t1-empty":
		return okw(w, w.do(mkCreate("t1", worldSchemas["t1"])))
	}
	return histSeeds[name](w)
}

func runC14(env *lib.Env, rep *lib.Report) {
	maxM := 3
	seeds := []string{"t1-empty", "t1x8", "t1x8-upper-deleted", "interleaved", "t4k1", "t4k2", "t4k3", "t5-null-later", "small:t1x40", "t1x8-maxrow-upper", "t1x12+refused+t2+restart", "t1x8-row-ids-used-up"}
	if env.Thorough() {
		maxM = 6
		seeds = append(seeds, "t1x30", "t1x8+t2t3-crashed", "t1x12+t2x1")
	}
	// the window of row counts in which a table at real page capacities fills and splits its root interior page:
	// only the statements that are valid (expected to succeed; an error must leave nothing behind) run there
	for n := 1150; n <= 1172; n++ {
		if env.Thorough() || n%2 == 0 || n >= 1160 && n <= 1168 {
			seeds = append(seeds, fmt.Sprintf("deep:t1x%d", n))
		}
	}
	rep.Bounds["seeds"] = seeds
	rep.Bounds["rows per failing multi-row statement"] = fmt.Sprintf("1..%d, failing row at every position", maxM)
	rep.Bounds["observation points"] = "immediately; after a timer flush; after clean shutdown + restart; after crash + recovery; after timer flush + crash + recovery"
	known := env.OpenKnown()
	explore(env, rep, 0, func(c *lib.Ctx) {
		seed := seeds[c.Choose(len(seeds), "seed")]
		c.Logf("seed %s", seed)
		opt := worldOpt{}
		if strings.HasPrefix(seed, "small:") {
			opt = worldOpt{Leaf: 3, Internal: 3}
		}
		if strings.HasPrefix(seed, "deep:") {
			// a statement over a thousand rows legitimately fetches more pages than the per-operation allowance
			// that detects cycles in small trees
			saved := worldFuel
			worldFuel = 4000000
			defer func() { worldFuel = saved }()
		}
		w := newWorld(c, opt)
		defer func() { w.destroy() }()
		if sw := c14Seed(w, seed); sw == nil || c.Failed() {
			if !c.Failed() {
				c.Fail("seed-failed", "seed %s", seed)
			}
			return
		} else {
			w = sw
		}
		// optionally flush first, so the failing statement meets clean pages
		if c.Choose(2, "flush-before") == 1 && !w.tick() {
			return
		}
		if !w.checkAll("before the failing statement") {
			return
		}
		before := w.fullDump()
		fs := failingStatements(w, maxM)
		if seed == "t1x8-row-ids-used-up" {
			var only []failStmt
			for _, f := range fs {
				if f.Class == "valid/insert" {
					only = append(only, f)
				}
			}
			fs = only
		}
		if strings.HasPrefix(seed, "deep:") {
			var valid []failStmt
			for _, f := range fs {
				if strings.HasPrefix(f.Class, "valid/") {
					valid = append(valid, f)
				}
			}
			fs = valid
		}
		f := fs[c.Choose(len(fs), "failing-stmt")]
		c.Logf("%s   [class %s, first failing row %d of %d]", clip(f.SQL, 200), f.Class, f.K, f.M)
		err := w.exec(f.SQL)
		if err == nil {
			// not a failing statement after all: nothing for this property to judge
			c.Tag("statement-succeeded:" + f.Class)
			return
		}
		if pe, isPanic := err.(*panicErr); isPanic {
			if _, fuel := pe.val.(storage.VerifFuelExhausted); !fuel {
				// a panic is C18's business; here only the state afterwards matters
				c.Tag("statement-panicked")
			}
		}
		c.Logf("  refused with: %s", clip(err.Error(), 300))
		c.Tag("class:" + f.Class)
		if f.K >= 2 {
			c.NonTrivial()
		}
		knownID := ""
		defer func() {
			if knownID != "" {
				if c.Failed() {
					c.SetKnown(knownID)
				} else {
					c.Tag("known-not-violating:" + knownID)
				}
			}
		}()
		obs := c.Choose(5, "observe")
		// D16 predicate (input only): the first failing row is not the first row, and the state is observed
		// before a crash could have thrown the unlogged rows away (a crash without a flush does: then the
		// state must equal the one before the statement, and a failure is a violation)
		// - and only for the statement shapes the finding lists: a multi-row INSERT of literal rows, an UPDATE that
		// sets a literal value (any other statement failing half way is a different call site)
		d16Shape := strings.HasPrefix(f.Class, "insert/") || strings.HasPrefix(f.Class, "insert-collist/") || f.Class == "update/row-limit-on-kth-row"
		if _, ok := known["D16-failing-multirow-half-applied"]; ok && f.K >= 2 && obs != 3 && d16Shape {
			knownID = "D16-failing-multirow-half-applied"
		}
		switch obs {
		case 0:
			c.Logf("observe immediately")
		case 1:
			if !w.tick() {
				return
			}
		case 2:
			c.Logf("CLOSE + RESTART")
			rs := w.sess.RelationService
			if err := guard(func() error { return w.sess.Close() }); err != nil {
				w.failErr("close-failed", "Session.Close", err)
				return
			}
			storage.VerifMarkClosed(rs)
			w = w.recoverFrom(w.image(), false)
		case 3:
			c.Logf("CRASH")
			w = w.recoverFrom(w.image(), false)
		case 4:
			if !w.tick() {
				return
			}
			c.Logf("CRASH")
			w = w.recoverFrom(w.image(), false)
		}
		if c.Failed() {
			return
		}
		after := w.fullDump()
		c.Observe(f.Class, f.K, f.M, obs, after == before)
		c.Class(fmt.Sprintf("%s k=%d m=%d obs=%d seed=%s", f.Class, f.K, f.M, obs, seed))
		if after != before {
			c.Fail("failed-statement-changed-state", "the failing statement (%s, first failing row %d of %d) left a trace:\n before: %s\n after:  %s", f.Class, f.K, f.M, before, after)
			return
		}
		if seed == "t1x8-row-ids-used-up" {
			return // (what the next row id would be is not this property's question)
		}
		// and the database keeps behaving as before the failure
		if !w.do(mkInsert(w.model, "t1", 1, false)) {
			return
		}
		if !w.checkAll("after a statement following the failed one") {
			return
		}
		// ... also across a crash: whatever the refused statement took or stamped without logging it must not cost
		// the acknowledged statement that followed its durability
		c.Logf("CRASH (after the statement that followed the refused one)")
		w = w.recoverFrom(w.image(), false)
		if c.Failed() {
			return
		}
		w.checkAll("after the refused statement, an acknowledged INSERT, a crash and recovery")
	})
}

// fullDump renders every model table plus both catalog tables (values only).
func (w *world) fullDump() string {
	var sb strings.Builder
	for _, name := range append([]string{"sys_schema", "sys_pages"}, w.model.Order...) {
		q := "SELECT * FROM " + name
		if name == "sys_pages" {
			q = "SELECT table_name FROM sys_pages"
		}
		rows, _, err := w.query(q)
		if err != nil {
			fmt.Fprintf(&sb, "%s: error %v; ", name, err)
			continue
		}
		fmt.Fprintf(&sb, "%s:", name)
		for _, r := range rows {
			sb.WriteString(short(r.Vals))
		}
		sb.WriteString("; ")
	}
	return sb.String()
}
