package engine

import (
	"fmt"
	"math"
	"strings"

	"github.com/mk6i/mkdb/sql"
	"github.com/mk6i/mkdb/storage"
	"verif/lib"
)

// C08 — stored values read back exactly; invalid values are refused.
// Enumeration: every schema of 1..3 columns over the four types in every
// order (84) x supply path (direct statement values / SQL text) x operation
// (INSERT / UPDATE) x storage journey (cache -> timer flush with a tiny cache
// -> clean restart, and crash recovery straight from the log); inside each
// execution every column takes every value of its boundary set (valid and
// invalid) while the other columns hold defaults.

func init() { verifChecks["C08"] = runC08 }

type c08Val struct {
	v      any
	ok     bool   // must be accepted by a column of the type it is tried on
	sqlLit string // SQL text form ("" = not expressible in SQL text)
	note   string
}

func c08Values(typ string, thorough bool) []c08Val {
	switch typ {
	case "int":
		return []c08Val{
			{int64(0), true, "0", ""}, {int64(1), true, "1", ""}, {int64(math.MaxInt32), true, "2147483647", "max int32"},
			{int64(10), true, "010", "decimal literal with a leading zero"}, {int64(89), true, "089", "decimal literal with a leading zero (not octal)"},
			{int64(-1), true, "", ""}, {int64(math.MinInt32), true, "", "min int32"},
			{int64(math.MaxInt32) + 1, false, "2147483648", "2^31"}, {int64(math.MinInt32) - 1, false, "", "-2^31-1"},
			{int64(math.MaxInt64), false, "9223372036854775807", "max int64 into INT"},
			{int64(math.MinInt64), false, "", "min int64 into INT"}, {int64(math.MinInt64) + 1, false, "", "min int64 + 1 into INT"}, {int64(1) << 32, false, "4294967296", "2^32 into INT (low 32 bits are zero)"},
			{nil, true, "", "NULL"},
			{"7", false, "'7'", "string into INT"}, {true, false, "true", "bool into INT"},
			{int(5), false, "", "Go int (not int64)"}, {int32(5), false, "", "Go int32"}, {3.5, false, "", "float64"},
		}
	case "bigint":
		return []c08Val{
			{int64(0), true, "0", ""}, {int64(math.MaxInt64), true, "9223372036854775807", "max int64"}, {int64(math.MinInt64), true, "", "min int64"},
			{int64(100), true, "0100", "decimal literal with a leading zero"},
			{int64(-1), true, "", ""}, {int64(1) << 40, true, "1099511627776", "2^40"},
			{nil, true, "", "NULL"},
			{"7", false, "'7'", "string into BIGINT"}, {false, false, "false", "bool into BIGINT"}, {uint64(9), false, "", "Go uint64"},
			{nil, false, "9223372036854775808", "2^63 as SQL text (must be refused, no value)"},
		}
	case "boolean":
		return []c08Val{
			{true, true, "true", ""}, {false, true, "false", ""}, {nil, true, "", "NULL"},
			{int64(1), false, "1", "int into BOOLEAN"}, {"true", false, "'true'", "string into BOOLEAN"},
		}
	case "varchar":
		out := []c08Val{
			{"", true, "''", "empty string"}, {"a", true, "'a'", ""}, {"hello world", true, "'hello world'", ""},
			{"é日本🙂", true, "'é日本🙂'", "multi-byte UTF-8"}, {"semi;colon -- dash /* c */", true, "'semi;colon -- dash /* c */'", "SQL-looking text"},
			{"\"dq\"", true, "'\"dq\"'", "double quotes inside"}, {"it's", true, "", "single quote (direct only)"},
			{"back\\slash", true, "", "backslash (direct only)"}, {"line\nbreak\ttab", true, "", "control characters (direct only)"},
			{string([]byte{0xff, 0xfe, 0x00, 0x80}), true, "", "invalid UTF-8 and NUL bytes"},
			// SQL text keeps what stands between the outer quotes verbatim, backslashes included
			{"\\'", true, "'\\''", "backslash-quote only"}, {"ends in\\'", true, "'ends in\\''", "escaped quote last"},
			{"\\'starts", true, "'\\'starts'", "escaped quote first"}, {"a\\'b\\'", true, "'a\\'b\\''", "two escaped quotes"},
			{"\\\\", true, "'\\\\'", "two backslashes"}, {"tail\\\\", true, "'tail\\\\'", "escaped backslash last"},
			{"\\n", true, "'\\n'", "backslash n (two bytes)"},
			{nil, true, "", "NULL"},
			{int64(5), false, "5", "int into VARCHAR"}, {true, false, "true", "bool into VARCHAR"}, {[]byte("raw"), false, "", "[]byte"},
		}
		n := 256
		if !thorough {
			n = 256
		}
		for b := 0; b < n; b++ {
			s := string([]byte{byte(b)})
			lit := ""
			if b >= 0x20 && b < 0x7f && b != '\'' && b != '\\' {
				lit = "'" + s + "'"
			}
			out = append(out, c08Val{s, true, lit, fmt.Sprintf("single byte 0x%02x", b)})
		}
		return out
	}
	panic("type")
}

func c08Default(typ string, k int) (any, string) {
	switch typ {
	case "int":
		return int64(k), fmt.Sprint(k)
	case "bigint":
		return int64(k) * 1000, fmt.Sprint(k * 1000)
	case "boolean":
		if k%2 == 0 {
			return true, "true"
		}
		return false, "false"
	}
	return fmt.Sprintf("d%d", k), fmt.Sprintf("'d%d'", k)
}

// encodedSize is the property's size rule, written independently of the code:
// one NULL-marker byte per column plus 4 / 8 / 1 / 4+len bytes.
func c08EncodedSize(types []string, vals []any) int {
	n := 0
	for i, t := range types {
		n++
		if vals[i] == nil {
			continue
		}
		switch t {
		case "int":
			n += 4
		case "bigint":
			n += 8
		case "boolean":
			n++
		case "varchar":
			n += 4 + len(vals[i].(string))
		}
	}
	return n
}

func c08Schemas4() [][]string {
	types := []string{"int", "bigint", "varchar", "boolean"}
	var out [][]string
	for _, a := range types {
		for _, b := range types {
			for _, c := range types {
				for _, d := range types {
					out = append(out, []string{a, b, c, d})
				}
			}
		}
	}
	return out
}

func c08Schemas() [][]string {
	types := []string{"int", "bigint", "varchar", "boolean"}
	var out [][]string
	for _, a := range types {
		out = append(out, []string{a})
	}
	for _, a := range types {
		for _, b := range types {
			out = append(out, []string{a, b})
		}
	}
	for _, a := range types {
		for _, b := range types {
			for _, c := range types {
				out = append(out, []string{a, b, c})
			}
		}
	}
	return out
}

type c08Case struct {
	vals   []any
	lits   []string // SQL literals ("" in a slot = not expressible)
	accept bool
	note   string
}

// c08Cases: every column takes every value of its set, others default; plus
// rows at exactly 399/400/401 encoded bytes when the schema has a varchar.
func c08Cases(types []string, thorough bool) []c08Case {
	var out []c08Case
	k := 0
	for col, t := range types {
		for _, v := range c08Values(t, thorough) {
			k++
			c := c08Case{vals: make([]any, len(types)), lits: make([]string, len(types)), accept: v.ok, note: fmt.Sprintf("col %d (%s) = %s %v", col, t, v.note, clipAny(v.v))}
			for j, tj := range types {
				c.vals[j], c.lits[j] = c08Default(tj, k+j)
			}
			c.vals[col], c.lits[col] = v.v, v.sqlLit
			if v.v == nil && v.sqlLit == "" {
				c.lits[col] = "\x00omit" // NULL through SQL text = column left out of the column list
			}
			if v.v == nil && v.sqlLit != "" {
				c.vals[col] = "\x00unrepresentable" // only exists as SQL text
			}
			out = append(out, c)
		}
	}
	for col, t := range types {
		if t != "varchar" {
			continue
		}
		for _, target := range []int{399, 400, 401} {
			k++
			c := c08Case{vals: make([]any, len(types)), lits: make([]string, len(types))}
			for j, tj := range types {
				c.vals[j], c.lits[j] = c08Default(tj, k+j)
			}
			c.vals[col] = ""
			base := c08EncodedSize(types, c.vals)
			s := strings.Repeat("z", target-base)
			c.vals[col], c.lits[col] = s, "'"+s+"'"
			c.accept = target <= 400
			c.note = fmt.Sprintf("row encoding of exactly %d bytes (long value in col %d)", target, col)
			out = append(out, c)
		}
		break
	}
	return out
}

func clipAny(v any) string {
	s := fmt.Sprintf("%#v", v)
	if len(s) > 40 {
		return s[:40] + "…"
	}
	return s
}

func runC08(env *lib.Env, rep *lib.Report) {
	schemas := c08Schemas()
	if env.Thorough() {
		schemas = append(schemas, c08Schemas4()...)
	}
	paths := []string{"direct", "sqltext"}
	ops := []string{"insert", "update"}
	journeys := []string{"cache->flush(tiny cache)->restart", "crash-recovery-from-log", "multi-page table: updates of first/middle/last rows, flush, eviction, re-selection, restart",
		"long SQL text: 40-row INSERTs of multi-byte strings shifted byte by byte across the scanner's refill boundaries",
		"table of 60 rows (15 leaves) under an 8-page cache, all pages clean: updates of the first, a middle and the last row, read back at once, after a flush and after restart",
		"a catalog wider than the 8-page cache (ten four-column tables besides v): every statement's catalog look-up turns the whole cache over; each value inserted / updated, read back at once, after a flush and after restart"}
	rep.Bounds["schemas"] = fmt.Sprintf("%d (all orders of 1..3 columns (thorough: 1..4) over int, bigint, varchar, boolean)", len(schemas))
	rep.Bounds["column names"] = "k0,k1,..; and (schemas of >= 2 columns, journeys 0 and 1) ab, AB, Ab, aB - names that differ only in letter case"
	rep.Bounds["supply paths"] = paths
	rep.Bounds["operations"] = ops
	rep.Bounds["journeys"] = journeys
	rep.Bounds["values"] = "INT {-2^31,-1,0,1,2^31-1 | refused 2^31,-2^31-1,max int64}, BIGINT {-2^63,-1,0,2^40,2^63-1 | 2^63 as text refused}, BOOLEAN, NULL, VARCHAR {empty, every single byte 0x00-0xFF, multi-byte UTF-8, quotes, control bytes, invalid UTF-8}, rows of exactly 399/400/401 encoded bytes, wrong Go kinds (string/bool/int/int32/uint64/float64/[]byte)"
	explore(env, rep, 0, func(c *lib.Ctx) {
		types := schemas[c.Choose(len(schemas), "schema")]
		path := paths[c.Choose(len(paths), "path")]
		op := ops[c.Choose(len(ops), "op")]
		journey := c.Choose(len(journeys), "journey")
		c.Logf("schema %v, path %s, op %s, journey %s", types, path, op, journeys[journey])
		if journey == 3 {
			if len(types) == 1 && types[0] == "varchar" && path == "sqltext" && op == "insert" {
				c08LongText(c)
			} else {
				c.Tag("journey-3-is-varchar-sqltext-insert-only")
			}
			return
		}
		if journey == 4 {
			if op == "update" && len(types) == 1 {
				c08WideTable(c, types[0], path)
			} else {
				c.Tag("journey-4-is-update-of-one-column-schemas-only")
			}
			return
		}
		if journey == 5 {
			if len(types) == 1 {
				c08WideCatalog(c, types[0], path, op)
			} else {
				c.Tag("journey-5-is-one-column-schemas-only")
			}
			return
		}
		if journey == 2 {
			if op == "update" {
				c08MultiPage(c, types, path)
			} else {
				c.Tag("journey-2-is-update-only")
			}
			return
		}
		// journey 0 runs with a 12-page cache and a timer flush every few statements, so stored
		// pages are continually evicted and re-read; journey 1 never flushes (values live in the log only)
		// column names: k0,k1,.. or names that differ from each other only in letter case
		naming := 0
		if len(types) > 1 {
			naming = c.Choose(2, "column naming")
		}
		wo := worldOpt{}
		if journey == 0 {
			wo.Cache = 12
		}
		w := newWorld(c, wo)
		stmts := 0
		defer func() { w.destroy() }()
		var ddl, names []string
		for i, t := range types {
			names = append(names, fmt.Sprintf("k%d", i))
			if naming == 1 {
				names[i] = []string{"ab", "AB", "Ab", "aB"}[i]
			}
			ddl = append(ddl, colDDL(mCol{names[i], t}))
		}
		if err := w.exec("CREATE TABLE v (" + strings.Join(ddl, ", ") + ")"); err != nil {
			w.failErr("create-failed", "CREATE TABLE v", err)
			return
		}
		cases := c08Cases(types, true)
		var expect [][]any // accepted rows in order
		nAccepted, nRefused := 0, 0
		judge := func(cs c08Case, err error, what string) bool {
			if _, isPanic := err.(*panicErr); isPanic {
				w.failErr("panic", what+" "+cs.note, err)
				return false
			}
			if cs.accept && err != nil {
				c.Fail("valid-value-refused", "%s: %s was refused: %v", what, cs.note, err)
				return false
			}
			if !cs.accept && err == nil {
				c.Fail("invalid-value-accepted", "%s: %s was accepted", what, cs.note)
				return false
			}
			return true
		}
		if op == "update" {
			// one row holding defaults; every case updates it
			var dv []any
			var dl []string
			for j, tj := range types {
				v, l := c08Default(tj, 500+j)
				dv, dl = append(dv, v), append(dl, l)
			}
			if err := w.exec("INSERT INTO v VALUES (" + strings.Join(dl, ", ") + ")"); err != nil {
				w.failErr("insert-failed", "default row", err)
				return
			}
			expect = [][]any{dv}
		}
		for _, cs := range cases {
			// render / build the statement
			var err error
			expressible := true
			switch path {
			case "direct":
				for _, v := range cs.vals {
					if s, ok := v.(string); ok && s == "\x00unrepresentable" {
						expressible = false
					}
				}
				if !expressible {
					continue
				}
				if op == "insert" {
					q := sql.InsertStatement{TableName: "v", InsertColumnsAndSource: sql.InsertColumnsAndSource{
						QueryExpression: sql.TableValueConstructor{TableValueConstructorList: []sql.RowValueConstructor{{RowValueConstructorList: cs.vals}}}}}
					err = guard(func() error { _, e := EvaluateInsert(q, w.sess.RelationService); return e })
				} else {
					q := sql.UpdateStatementSearched{TableName: "v"}
					for j, v := range cs.vals {
						q.Set = append(q.Set, sql.SetClause{ObjectColumn: names[j], UpdateSource: v})
					}
					err = guard(func() error { return EvaluateUpdate(q, w.sess.RelationService) })
				}
			case "sqltext":
				var cols, lits []string
				for j, l := range cs.lits {
					if l == "" {
						expressible = false
					}
					if l == "\x00omit" {
						continue
					}
					cols, lits = append(cols, names[j]), append(lits, l)
				}
				if !expressible || len(cols) == 0 {
					continue
				}
				if op == "insert" {
					err = w.exec(fmt.Sprintf("INSERT INTO v (%s) VALUES (%s)", strings.Join(cols, ", "), strings.Join(lits, ", ")))
				} else {
					if len(cols) != len(names) {
						continue // UPDATE cannot set NULL through SQL text
					}
					var sets []string
					for j := range cols {
						sets = append(sets, cols[j]+" = "+lits[j])
					}
					err = w.exec("UPDATE v SET " + strings.Join(sets, ", "))
				}
			}
			stmts++
			if journey == 0 && stmts%6 == 0 && !w.tick() {
				return
			}
			accept := cs.accept
			if accept && c08EncodedSize(types, cs.vals) > 400 {
				accept = false
			}
			cs.accept = accept
			if !judge(cs, err, op+" via "+path) {
				return
			}
			if accept {
				nAccepted++
				if op == "insert" {
					expect = append(expect, cs.vals)
				} else {
					expect = [][]any{cs.vals}
				}
			} else {
				nRefused++
			}
			// the table must hold exactly the accepted rows, bit for bit
			if op == "update" || nAccepted%16 == 0 || !accept {
				if !c08Compare(w, expect, "right after "+cs.note) {
					return
				}
			}
		}
		c.Observe(types, path, op, journey, naming, nAccepted, nRefused)
		c.Class(fmt.Sprintf("%v/%s/%s/%d", types, path, op, journey))
		c.NonTrivial()
		if !c08Compare(w, expect, "in the cache") {
			return
		}
		switch journey {
		case 0:
			if !w.tick() {
				return
			}
			// a second scan with a 12-page cache forces eviction and reload of flushed pages
			if !c08Compare(w, expect, "after flush + reload through a tiny cache") {
				return
			}
			rs := w.sess.RelationService
			if err := guard(func() error { return w.sess.Close() }); err != nil {
				w.failErr("close-failed", "Session.Close", err)
				return
			}
			storage.VerifMarkClosed(rs)
			w = w.recoverFrom(w.image(), false)
			if c.Failed() {
				return
			}
			c08Compare(w, expect, "after clean restart")
		case 1:
			w = w.recoverFrom(w.image(), false)
			if c.Failed() {
				return
			}
			c08Compare(w, expect, "after crash recovery (values travelled through the log)")
		}
	})
}

func c08Compare(w *world, expect [][]any, when string) bool {
	rows, _, err := w.selectAll("v")
	if err != nil {
		w.failErr("select-failed", when, err)
		return false
	}
	if len(rows) != len(expect) {
		w.c.Fail("value-mismatch", "%s: table has %d rows, %d were accepted", when, len(rows), len(expect))
		return false
	}
	for i, r := range rows {
		for j := range expect[i] {
			if r.Vals[j] != expect[i][j] {
				w.c.Fail("value-mismatch", "%s: row %d column %d reads back %s, stored %s", when, i, j, clipAny(r.Vals[j]), clipAny(expect[i][j]))
				return false
			}
		}
	}
	return true
}

// c08WideTable: a table with more leaves than the page cache has slots. After a flush every page is clean; an
// UPDATE of one row then scans on through more pages than the cache holds, so the page it changed has to stay put
// (it is dirty) while clean pages come and go around it.
func c08WideTable(c *lib.Ctx, typ, path string) {
	w := newWorld(c, worldOpt{Cache: 8})
	defer func() { w.destroy() }()
	if err := w.exec("CREATE TABLE v (id int, " + colDDL(mCol{"k0", typ}) + ")"); err != nil {
		w.failErr("create-failed", "CREATE TABLE v", err)
		return
	}
	var expect [][]any
	for k := 0; k < 60; k++ {
		v, l := c08Default(typ, k)
		if err := w.exec(fmt.Sprintf("INSERT INTO v VALUES (%d, %s)", k, l)); err != nil {
			w.failErr("insert-failed", "seed row", err)
			return
		}
		expect = append(expect, []any{int64(k), v})
		if k%2 == 1 && !w.tick() {
			return
		}
	}
	if !w.tick() || !c08Compare(w, expect, "seeded 60-row table") {
		return
	}
	c.NonTrivial()
	c.Class(fmt.Sprintf("%s/%s/wide-table", typ, path))
	var cands []c08Val
	for _, v := range c08Values(typ, false) {
		if s, isStr := v.v.(string); !v.ok || isStr && len(s) == 1 || path == "sqltext" && (v.sqlLit == "" || v.v == nil) {
			continue
		}
		cands = append(cands, v)
	}
	for i, pos := range []int{0, 31, 59, 1} {
		v := cands[i%len(cands)]
		var err error
		if path == "direct" {
			q := sql.UpdateStatementSearched{TableName: "v", Set: []sql.SetClause{{ObjectColumn: "k0", UpdateSource: v.v}},
				Where: sql.WhereClause{SearchCondition: sql.Predicate{ComparisonPredicate: sql.ComparisonPredicate{LHS: sql.ColumnReference{ColumnName: "id"}, CompOp: sql.EQ, RHS: int64(pos)}}}}
			err = guard(func() error { return EvaluateUpdate(q, w.sess.RelationService) })
		} else {
			err = w.exec(fmt.Sprintf("UPDATE v SET k0 = %s WHERE id = %d", v.sqlLit, pos))
		}
		if err != nil {
			w.failErr("valid-value-refused", fmt.Sprintf("UPDATE row %d = %s", pos, clipAny(v.v)), err)
			return
		}
		expect[pos][1] = v.v
		if !c08Compare(w, expect, fmt.Sprintf("right after updating row %d to %s", pos, clipAny(v.v))) {
			return
		}
		if !w.tick() || !c08Compare(w, expect, fmt.Sprintf("after the flush that follows the update of row %d", pos)) {
			return
		}
	}
	rs := w.sess.RelationService
	if err := guard(func() error { return w.sess.Close() }); err != nil {
		w.failErr("close-failed", "Session.Close", err)
		return
	}
	storage.VerifMarkClosed(rs)
	w = w.recoverFrom(w.image(), false)
	if c.Failed() {
		return
	}
	c08Compare(w, expect, "after clean restart")
}

// c08WideCatalog: ten four-column tables are declared before v, so that the catalog alone (page table and schema
// table, a dozen pages) is larger than the 8-page cache: whatever a statement fetched before it looked its table up is
// evicted by the look-up. Every valid value is inserted (op insert) or written over the single row (op update) and
// read back at once, after a timer flush and - at the end - after a clean restart.
func c08WideCatalog(c *lib.Ctx, typ, path, op string) {
	w := newWorld(c, worldOpt{})
	defer func() { w.destroy() }()
	for i := 0; i < 10; i++ {
		if err := w.exec(fmt.Sprintf("CREATE TABLE filler%d (a int, b bigint, c varchar(255), d boolean)", i)); err != nil {
			w.failErr("create-failed", "CREATE TABLE filler", err)
			return
		}
	}
	if err := w.exec("CREATE TABLE v (" + colDDL(mCol{"k0", typ}) + ")"); err != nil {
		w.failErr("create-failed", "CREATE TABLE v", err)
		return
	}
	if !w.tick() {
		return
	}
	storage.VerifReplaceCache(w.sess.RelationService, 8)
	storage.VerifSetCacheCap(8)
	c.NonTrivial()
	c.Class(fmt.Sprintf("%s/%s/%s/wide-catalog", typ, path, op))
	var expect [][]any
	if op == "update" {
		v, l := c08Default(typ, 1)
		if err := w.exec(fmt.Sprintf("INSERT INTO v VALUES (%s)", l)); err != nil {
			w.failErr("insert-failed", "seed row", err)
			return
		}
		expect = [][]any{{v}}
		if !w.tick() {
			return
		}
	}
	n := 0
	for _, v := range c08Values(typ, false) {
		if s, isStr := v.v.(string); !v.ok || isStr && len(s) == 1 && n > 3 || path == "sqltext" && (v.sqlLit == "" || v.v == nil) {
			continue
		}
		n++
		var err error
		switch {
		case op == "insert" && path == "direct":
			q := sql.InsertStatement{TableName: "v"}
			q.QueryExpression = sql.TableValueConstructor{TableValueConstructorList: []sql.RowValueConstructor{{RowValueConstructorList: []any{v.v}}}}
			err = guard(func() error { _, e := EvaluateInsert(q, w.sess.RelationService); return e })
		case op == "insert":
			err = w.exec(fmt.Sprintf("INSERT INTO v VALUES (%s)", v.sqlLit))
		case path == "direct":
			q := sql.UpdateStatementSearched{TableName: "v", Set: []sql.SetClause{{ObjectColumn: "k0", UpdateSource: v.v}}}
			err = guard(func() error { return EvaluateUpdate(q, w.sess.RelationService) })
		default:
			err = w.exec(fmt.Sprintf("UPDATE v SET k0 = %s", v.sqlLit))
		}
		if err != nil {
			w.failErr("valid-value-refused", fmt.Sprintf("%s of %s", op, clipAny(v.v)), err)
			return
		}
		if op == "insert" {
			expect = append(expect, []any{v.v})
		} else {
			expect[0][0] = v.v
		}
		if !c08Compare(w, expect, fmt.Sprintf("right after the %s of %s", op, clipAny(v.v))) {
			return
		}
		if !w.tick() || !c08Compare(w, expect, fmt.Sprintf("after the flush that follows the %s of %s", op, clipAny(v.v))) {
			return
		}
	}
	rs := w.sess.RelationService
	if err := guard(func() error { return w.sess.Close() }); err != nil {
		w.failErr("close-failed", "Session.Close", err)
		return
	}
	storage.VerifMarkClosed(rs)
	w = w.recoverFrom(w.image(), false)
	if c.Failed() {
		return
	}
	c08Compare(w, expect, "after clean restart")
}

// c08MultiPage: a table of 12 rows (root + several leaves) whose first, middle
// and last rows are updated to shorter / longer / NULL values, observed in the
// cache, after a flush with an 8-page cache (eviction + reload), after
// re-selecting the database (close + open, no log replay) and after restart.
func c08MultiPage(c *lib.Ctx, types []string, path string) {
	w := newWorld(c, worldOpt{Cache: 8})
	defer func() { w.destroy() }()
	names := []string{"id"}
	ddl := []string{"id int"}
	for i, t := range types {
		names = append(names, fmt.Sprintf("k%d", i))
		ddl = append(ddl, colDDL(mCol{names[i+1], t}))
	}
	if err := w.exec("CREATE TABLE v (" + strings.Join(ddl, ", ") + ")"); err != nil {
		w.failErr("create-failed", "CREATE TABLE v", err)
		return
	}
	longDefault := func(t string, k int) (any, string) {
		if t == "varchar" {
			s := fmt.Sprintf("row-%02d-", k) + strings.Repeat("m", 24)
			return s, "'" + s + "'"
		}
		return c08Default(t, k)
	}
	var expect [][]any
	for k := 0; k < 12; k++ {
		vals := []any{int64(k)}
		lits := []string{fmt.Sprint(k)}
		for _, t := range types {
			v, l := longDefault(t, k)
			vals, lits = append(vals, v), append(lits, l)
		}
		if err := w.exec("INSERT INTO v VALUES (" + strings.Join(lits, ", ") + ")"); err != nil {
			w.failErr("insert-failed", "seed row", err)
			return
		}
		expect = append(expect, vals)
		if k%3 == 2 && !w.tick() {
			return
		}
	}
	if !w.tick() || !c08Compare(w, expect, "seeded multi-page table") {
		return
	}
	c.NonTrivial()
	c.Class(fmt.Sprintf("%v/%s/multipage", types, path))
	reselect := func() bool {
		c.Logf("USE d (re-select: close + open)")
		if err := w.exec("USE d"); err != nil {
			w.failErr("use-failed", "USE d", err)
			return false
		}
		return true
	}
	candsFor := func(t string) []c08Val {
		var cands []c08Val
		for _, v := range c08Values(t, false) {
			if !v.ok {
				continue
			}
			if s, isStr := v.v.(string); isStr && len(s) == 1 && s != "a" {
				continue // the 256 single bytes are covered by the single-row journeys
			}
			if path == "sqltext" && (v.sqlLit == "" || v.v == nil) {
				continue
			}
			cands = append(cands, v)
		}
		return cands
	}
	update := func(pos, j int, v c08Val) bool {
		var err error
		if path == "direct" {
			q := sql.UpdateStatementSearched{TableName: "v", Set: []sql.SetClause{{ObjectColumn: names[j+1], UpdateSource: v.v}},
				Where: sql.WhereClause{SearchCondition: sql.Predicate{ComparisonPredicate: sql.ComparisonPredicate{LHS: sql.ColumnReference{ColumnName: "id"}, CompOp: sql.EQ, RHS: int64(pos)}}}}
			err = guard(func() error { return EvaluateUpdate(q, w.sess.RelationService) })
		} else {
			err = w.exec(fmt.Sprintf("UPDATE v SET %s = %s WHERE id = %d", names[j+1], v.sqlLit, pos))
		}
		if err != nil {
			w.failErr("valid-value-refused", fmt.Sprintf("UPDATE row %d column %s = %s", pos, names[j+1], clipAny(v.v)), err)
			return false
		}
		expect[pos][j+1] = v.v
		return true
	}
	n := 0
	for _, pos := range []int{0, 5, 11} {
		for j, t := range types {
			cands := candsFor(t)
			for _, v := range cands {
				n++
				if !update(pos, j, v) {
					return
				}
				if !c08Compare(w, expect, fmt.Sprintf("right after updating row %d column %d to %s", pos, j, clipAny(v.v))) {
					return
				}
				switch n % 3 {
				case 0:
					if !w.tick() || !c08Compare(w, expect, "after flush (8-page cache: pages are evicted and re-read)") {
						return
					}
				case 1:
					// no flush: the page stays modified in the cache while other pages are scanned
					if _, _, err := w.query("SELECT * FROM sys_schema"); err != nil {
						w.failErr("select-failed", "catalog scan", err)
						return
					}
					if !c08Compare(w, expect, "after scanning other pages with the update unflushed") {
						return
					}
				case 2:
					if !reselect() || !c08Compare(w, expect, "after re-selecting the database") {
						return
					}
				}
			}
		}
	}
	// an update, a flush, another update of the same row, and a crash before the next flush: the second value
	// exists in the log only and has to come back from there (for every column, on the first and the last page)
	for _, pos := range []int{0, 11} {
		for j, t := range types {
			cands := candsFor(t)
			if len(cands) < 2 {
				continue
			}
			if !update(pos, j, cands[len(cands)-1]) || !w.tick() || !update(pos, j, cands[0]) {
				return
			}
			c.Logf("CRASH (second update of row %d column %d not flushed)", pos, j)
			w = w.recoverFrom(w.image(), false)
			if c.Failed() {
				return
			}
			if !c08Compare(w, expect, fmt.Sprintf("after update, flush, second update of row %d column %d and a crash (the value travelled through the log)", pos, j)) {
				return
			}
		}
	}
	rs := w.sess.RelationService
	if err := guard(func() error { return w.sess.Close() }); err != nil {
		w.failErr("close-failed", "Session.Close", err)
		return
	}
	storage.VerifMarkClosed(rs)
	w = w.recoverFrom(w.image(), false)
	if c.Failed() {
		return
	}
	c08Compare(w, expect, "after clean restart")
	c.Observe(types, path, n)
}

// c08LongText: INSERT statements of about 2.5 KB whose string values consist of 2-, 3- and 4-byte characters,
// each statement shifted by one more leading blank, so that every phase of every character meets the 1024- and
// 2048-byte boundaries at which the scanner refills its buffer; every value must read back as written.
func c08LongText(c *lib.Ctx) {
	w := newWorld(c, worldOpt{})
	defer func() { w.destroy() }()
	if err := w.exec("CREATE TABLE v (id int, k0 varchar(255))"); err != nil {
		w.failErr("create-failed", "CREATE TABLE v", err)
		return
	}
	var expect [][]any
	id := 0
	for shift := 0; shift <= 13; shift++ {
		var parts []string
		var rows [][]any
		for r := 0; r < 40; r++ {
			id++
			val := strings.Repeat([]string{"é", "日", "🙂", "éa日b🙂c"}[(r+shift)%4], 5+(r%7)) + fmt.Sprintf("#%d", id)
			parts = append(parts, fmt.Sprintf("(%d, '%s')", id, val))
			rows = append(rows, []any{int64(id), val})
		}
		q := strings.Repeat(" ", shift) + "INSERT INTO v VALUES " + strings.Join(parts, ", ")
		if err := w.exec(q); err != nil {
			w.failErr("valid-value-refused", fmt.Sprintf("INSERT of 40 multi-byte strings (%d bytes of SQL text, %d leading blanks)", len(q), shift), err)
			return
		}
		expect = append(expect, rows...)
		if !c08Compare(w, expect, fmt.Sprintf("after the INSERT with %d leading blanks (%d bytes of SQL text)", shift, len(q))) {
			return
		}
		if shift%4 == 3 && !w.tick() {
			return
		}
	}
	c.NonTrivial()
	if !w.tick() {
		return
	}
	c08Compare(w, expect, "after the final flush")
}
