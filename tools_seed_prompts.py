#!/usr/bin/env python3
"""tools_seed_prompts.py [ids...] : (re)create /tmp/mut/<id> scratch worktrees of /repo HEAD and write
/tmp/mut/<id>.prompt.txt for a sub-agent: the property text only (nothing from /verif) plus one-sentence
summaries of the seeded changes already collected for it, so that the next one is different."""
import glob, json, os, subprocess, sys
V = os.path.dirname(os.path.abspath(__file__))
props = {}
for l in open(os.path.join(V, "properties.jsonl")):
    if l.strip():
        d = json.loads(l); props[d["id"]] = d
ids = sys.argv[1:] or sorted(props)
tmpl = open(os.path.join(V, "seeded", "PROMPT.tmpl")).read()
os.makedirs("/tmp/mut", exist_ok=True)
for i in ids:
    p = props[i]
    wt = "/tmp/mut/" + i
    subprocess.run(["git", "-C", "/repo", "worktree", "remove", "--force", wt], capture_output=True)
    subprocess.run(["rm", "-rf", wt])
    subprocess.run(["git", "-C", "/repo", "worktree", "add", "-q", "--detach", wt, "HEAD"], check=True)
    text = "Property %s — %s\n\n%s\n\nQuantifier: %s\n\nCode the property is anchored in: %s\n" % (
        i, p["title"], p["statement"], p["quantifier"]["text"], ", ".join(p["anchors"]["files"]))
    prev = []
    for m in sorted(glob.glob(os.path.join(V, "seeded", i + "-*", "meta.json"))):
        try:
            prev.append(json.load(open(m)).get("summary", "")[:330])
        except Exception:
            pass
    extra = ""
    if prev:
        extra = "\nIMPORTANT: %d other contributors have already produced these seeded changes for the same property:\n" % len(prev)
        for k, s in enumerate(prev):
            extra += '  %d. "%s"\n' % (k + 1, s)
        extra += ("Yours must be DIFFERENT from all of them: a different function or mechanism AND different circumstances to manifest. "
                  "Think about what a careful reviewer who already guards against those would still overlook: rarely exercised branches, "
                  "boundary values (exact capacities, empty inputs, maximum sizes), state carried across statements or across restarts, "
                  "values of unusual types (NULL, empty string, very long text, extreme integers), orderings of more than two steps, "
                  "a second table or a second database, or two cooperating sites that each look fine alone.\n")
    body = tmpl.replace("@@WT@@", wt)
    head, rest = body.split("@@PROP@@")
    out = head + text + extra + rest
    open("/tmp/mut/%s.prompt.txt" % i, "w").write(out)
    print(i, "worktree", wt, "previous", len(prev))
