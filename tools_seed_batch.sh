#!/bin/bash
# tools_seed_batch.sh <suffix> <id>... : confirm /tmp/mut/<id>/_seed as seeded/<id>-<suffix> and run check <id> against it
sfx=$1; shift
for i in "$@"; do
  if [ ! -f /tmp/mut/$i/_seed/patch.diff ]; then echo "$i: no deliverable"; continue; fi
  r=$(/verif/tools_seed_confirm.sh $i-$sfx /tmp/mut/$i/_seed 2>&1 | grep -E "^(NOT )?CONFIRMED")
  echo "$i-$sfx: $r"
  case "$r" in CONFIRMED*) /verif/tools_seed_run.sh $i-$sfx $i 2>&1 | cut -c1-300 | head -4;; esac
done
